/-
  The sequential session model: what each verb does to (user, logged, cwd, rename-from, restart offset,
  listener, data connection), to the slot counters and to the tree, and which replies it queues.
  Guard stacks are NOT written here: `step` interprets `Generated.Verb.guards`, the decorator stacks the
  translator recovered from the live bound methods, and only the handler bodies are transcribed by hand.
-/
import AioftpModel.Generated.Server
import AioftpModel.Model.Paths
import AioftpModel.Model.FsMem

namespace Model
namespace Session
open Py Generated

structure PermEntry where
  path : PPath
  readable : Bool
  writable : Bool
  deriving DecidableEq, Repr

structure UserCfg where
  login : Option Str
  password : Option Str
  home : PPath
  perms : List PermEntry
  maxConn : Option Nat
  deriving Repr

structure Cfg where
  users : List UserCfg
  maxConn : Option Nat
  ipv6 : Bool := false
  deriving Repr

/-- `Permission.is_parent(path)` -/
def PermEntry.isParent (e : PermEntry) (p : PPath) : Bool := p.isRelativeTo e.path

/-- `User.get_permissions`: `min` over the ancestors by relative depth (first minimal wins), default allow-all -/
def getPermissions (perms : List PermEntry) (p : PPath) : PermEntry :=
  let cands := perms.filter (·.isParent p)
  match cands with
  | [] => ⟨⟨1, []⟩, true, true⟩
  | c :: cs => cs.foldl (fun best e =>
      if p.parts.length - e.path.parts.length < p.parts.length - best.path.parts.length then e else best) c

structure SState where
  acquired : Bool := false
  user : Option Nat := none          -- index into cfg.users
  logged : Bool := false
  cwd : PPath := ⟨1, []⟩
  renameFrom : Option Path := none   -- resolved tail of the real path
  restartOffset : Nat := 0
  transferOffset : Nat := 0          -- the offset handed to a transfer command at dispatch
  passive : Bool := false
  dataConn : Bool := false
  alive : Bool := true
  deriving DecidableEq, Repr

structure World where
  fs : Fs
  serverFree : Option Nat
  userFree : List (Option Nat)
  deriving Repr

structure Out where
  replies : List Nat := []
  data : Bytes := []                 -- bytes sent on the data connection (RETR only; listings are names)
  listing : Option (List Str) := none
  crashed : Bool := false            -- handler raised something the dispatcher does not turn into a reply
  dataClosed : Bool := false         -- a parked data connection was closed by this command
  deriving Repr

/-- environment-controlled input of one sequential step -/
inductive Event where
  | connect                          -- TCP connect + greeting
  | line (raw : Str) (payload : Bytes)   -- one command line; payload = bytes the client sends on the data connection (STOR/APPE)
  | dataConnect                      -- the client connects to the passive listener
  | finish                           -- the session ends (any reason): the dispatcher's `finally`
  deriving Repr

/-! ### slot counters (`AvailableConnections`) -/

def locked (v : Option Nat) : Bool := v == some 0
def acquire (v : Option Nat) : Option Nat := v.map (· - 1)
def release (v : Option Nat) : Option Nat := v.map (· + 1)

def updUser (l : List (Option Nat)) (i : Nat) (f : Option Nat → Option Nat) : List (Option Nat) :=
  l.mapIdx (fun j v => if j = i then f v else v)

/-- `MemoryUserManager.get_user(login)` : index of the selected user -/
def findUser (users : List UserCfg) (login : Str) : Option Nat :=
  let rec go (us : List UserCfg) (i : Nat) (anon : Option Nat) : Option Nat :=
    match us with
    | [] => anon
    | u :: rest =>
      if u.login.isNone && anon.isNone then go rest (i + 1) (some i)
      else if u.login == some login then some i
      else go rest (i + 1) anon
  go users 0 none

/-- the four outcomes of `get_user`: (reply code, user?, logged?) -/
def getUser (cfg : Cfg) (w : World) (login : Str) : Nat × Option Nat × Bool :=
  match findUser cfg.users login with
  | none => (530, none, false)
  | some i =>
    match cfg.users[i]? with
    | none => (530, none, false)
    | some u =>
      if locked ((w.userFree[i]?).getD none) then (530, none, false)
      else if u.login.isNone then (230, some i, true)
      else if u.password.isNone then (230, some i, true)
      else (331, some i, false)

/-! ### guards -/

def fieldSet (s : SState) : Field → Bool
  | .user => s.user.isSome
  | .logged => s.logged
  | .passiveServer => s.passive
  | .dataConnection => s.dataConn
  | .renameFrom => s.renameFrom.isSome

inductive GuardResult where
  | pass
  | fail (code : Nat)
  | crash          -- e.g. `connection.user` missing
  | silent         -- empty permission list: the wrapped handler is never called, nothing is queued
  deriving DecidableEq, Repr

/-- resolved tail of `get_paths(connection, arg)` (base prefix left implicit: fs keys are relative to base) -/
def resolve (s : SState) (arg : PPath) : Path := (getPathsP ⟨0, []⟩ s.cwd arg).2.parts

def checkPathCond (fs : Fs) (p : Path) : PathCond → Bool
  | .mustExist => fs.exists_ p
  | .mustNotExist => !fs.exists_ p
  | .mustBeDir => fs.isDir p
  | .mustBeFile => fs.isFile p

def permFlag (e : PermEntry) : Perm → Bool
  | .readable => e.readable
  | .writable => e.writable

def runGuard (cfg : Cfg) (w : World) (s : SState) (arg : PPath) : Guard → GuardResult
  | .conn fields _wait code =>
    match fields.find? (fun f => !fieldSet s f) with
    | some _ => .fail code
    | none => .pass
  | .path conds =>
    match s.user with
    | none => .crash
    | some _ =>
      match conds.find? (fun c => !checkPathCond w.fs (resolve s arg) c) with
      | some _ => .fail 550
      | none => .pass
  | .perm perms =>
    match s.user.bind (cfg.users[·]?) with
    | none => .crash
    | some u =>
      match perms with
      | [] => .silent
      | p :: _ =>
        if permFlag (getPermissions u.perms ⟨1, resolve s arg⟩) p then .pass else .fail 550
  | .worker => .pass

def runGuards (cfg : Cfg) (w : World) (s : SState) (arg : PPath) : List Guard → GuardResult
  | [] => .pass
  | g :: gs =>
    match runGuard cfg w s arg g with
    | .pass => runGuards cfg w s arg gs
    | r => r

/-! ### handler bodies (after the guards passed) -/

/-- the offset a transfer worker seeks to: the connection attribute the translator found in it -/
def xferOffset (v : Verb) (s : SState) : Nat :=
  if v.offsetField = "transfer_offset" then s.transferOffset
  else if v.offsetField = "restart_offset" then s.restartOffset
  else 0

/-- the nested worker of a transfer verb, run to completion in the sequential setting, seeking to offset `k` -/
def workerK (k : Nat) (w : World) (s : SState) (target : Path) (v : Verb) (payload : Bytes) :
    World × SState × Out :=
  if !s.dataConn then
    -- wait_future_timeout expires: 425, session continues
    (w, s, { replies := [425] })
  else
    let s' := { s with dataConn := false }      -- `del connection.data_connection`
    match v with
    | .retr =>
      match w.fs.openFile target 0 with
      | none => (w, s', { replies := [451] })
      | some (_, c, _) => (w, s', { replies := [226], data := c.drop k })
    | .stor | .appe =>
      let mode := if k ≠ 0 then 3 else (if v = .stor then 1 else 2)
      match w.fs.openFile target mode with
      | none => (w, s', { replies := [451] })
      | some (fs', c, pos) =>
        let pos' := if k ≠ 0 then k else pos
        ({ w with fs := fs'.set target (.file (Fs.writeAt c pos' payload)) }, s', { replies := [226] })
    | .list => (w, s', { replies := [226], listing := some ((w.fs.children target).map (fun p => p.getLast?.getD [])) })
    | .mlsd => (w, s', { replies := [200], listing := some ((w.fs.children target).map (fun p => p.getLast?.getD [])) })
    | _ => (w, s', {})

/-- the worker as the handler starts it: the offset is the connection attribute the translator found -/
def worker (w : World) (s : SState) (target : Path) (v : Verb) (payload : Bytes) : World × SState × Out :=
  workerK (xferOffset v s) w s target v payload

/-- the guard of `int(rest)` in the REST handler, as found in the source now (`Generated.restPredicate`) -/
def restAccepts (rest : Str) : Bool :=
  if restPredicate = "isdecimal" then isDecimal rest
  else if restPredicate = "isdigit" then isDigit rest
  else false

def body (cfg : Cfg) (w : World) (s : SState) (v : Verb) (rest : Str) (arg : PPath) (payload : Bytes) :
    World × SState × Out :=
  let target := resolve s arg
  match v with
  | .user =>
    -- notify_logout of the previous user, forget user and login, then get_user
    let w1 := match s.user with
      | some i => { w with userFree := updUser w.userFree i release }
      | none => w
    let s1 := { s with user := none, logged := false,
                       renameFrom := if userDeletes.contains "rename_from" then none else s.renameFrom }
    let (code, u, lg) := getUser cfg w1 rest
    let w2 := match u with
      | some i => { w1 with userFree := updUser w1.userFree i acquire }
      | none => w1
    -- (`get_user` answers "logged" only together with a user, so `logged := lg` is exact in the 530 case too)
    let s2 := { s1 with user := u, logged := lg, cwd := match u with
      | some i => ((cfg.users[i]?).map (·.home)).getD ⟨1, []⟩
      | none => s1.cwd }
    (w2, s2, { replies := [code] })
  | .pass =>
    if s.logged then (w, s, { replies := [503] })
    else match s.user.bind (cfg.users[·]?) with
      | none => (w, { s with alive := false }, { crashed := true })
      | some u =>
        if u.password == some rest then (w, { s with logged := true }, { replies := [230] })
        else (w, s, { replies := [530] })
  | .quit => (w, { s with alive := false }, { replies := [221] })
  | .pwd => (w, s, { replies := [257] })
  | .cwd | .cdup => (w, { s with cwd := ⟨1, target⟩ }, { replies := [250] })
  | .mkd =>
    match w.fs.mkdirParents target with
    | some fs' => ({ w with fs := fs' }, s, { replies := [257] })
    | none => (w, s, { replies := [451] })
  | .rmd =>
    match w.fs.rmdir target with
    | some fs' => ({ w with fs := fs' }, s, { replies := [250] })
    | none => (w, s, { replies := [451] })
  | .dele =>
    match w.fs.unlink target with
    | some fs' => ({ w with fs := fs' }, s, { replies := [250] })
    | none => (w, s, { replies := [451] })
  | .mlst => (w, s, { replies := [250] })
  | .rnfr => (w, { s with renameFrom := some target }, { replies := [350] })
  | .rnto =>
    match s.renameFrom with
    | none => (w, { s with alive := false }, { crashed := true })
    | some src =>
      let (fs', ok) := w.fs.rename src target
      ({ w with fs := fs' }, { s with renameFrom := none }, { replies := [if ok then 250 else 451] })
  | .list | .mlsd | .retr =>
    let (w', s', o) := worker w s target v payload
    (w', s', { o with replies := 150 :: o.replies })
  | .stor | .appe =>
    if w.fs.isDir target.dropLast then
      let (w', s', o) := worker w s target v payload
      (w', s', { o with replies := 150 :: o.replies })
    else (w, s, { replies := [550] })
  | .type => (w, s, { replies := [if rest = ['I'] ∨ rest = ['A'] then 200 else 502] })
  | .pbsz => (w, s, { replies := [200] })
  | .prot => (w, s, { replies := [if rest = ['P'] then 200 else 502] })
  | .pasv =>
    if cfg.ipv6 then
      (w, { s with passive := true, alive := false }, { replies := [503] })
    else
      (w, { s with passive := true, dataConn := false }, { replies := [227], dataClosed := s.dataConn })
  | .epsv =>
    -- whether the 522 exit ends the session is read off the source (`return False` sites)
    if !rest.isEmpty then (w, { s with alive := !(Verb.epsv.closingCodes.contains 522) }, { replies := [522] })
    else (w, { s with passive := true, dataConn := false }, { replies := [229], dataClosed := s.dataConn })
  | .abor => (w, s, { replies := [226] })    -- sequential setting: never a running worker
  | .rest =>
    if restAccepts rest then
      match intOfDigits? rest with
      | some n => (w, { s with restartOffset := n }, { replies := [350] })
      | none => (w, { s with alive := false }, { crashed := true })   -- int() raises ValueError in the handler
    else (w, { s with restartOffset := 0 }, { replies := [501] })
  | .syst => (w, s, { replies := [215] })

/-- verb lookup as the dispatcher does it: `commands_mapping.get(cmd)` on the lower-cased first word -/
def verbOf (name : Str) : Option Verb :=
  Verb.all.find? (fun v => v.name.toList = name)

/-- `parse_command`: decode, `rstrip()`, `partition(" ")`, `lower()` -/
def parseCommand (raw : Str) : Str × Str :=
  (lower (partitionSpace (rstrip raw)).1, (partitionSpace (rstrip raw)).2)

def finalize (w : World) (s : SState) : World × SState :=
  let w1 := if s.acquired then { w with serverFree := release w.serverFree } else w
  let w2 := match s.user with
    | some i => { w1 with userFree := updUser w1.userFree i release }
    | none => w1
  (w2, { s with alive := false, acquired := false, user := none, logged := false, passive := false,
                dataConn := false })

def evalOff (s : SState) : OffSrc → Nat
  | .restart => s.restartOffset
  | .transfer => s.transferOffset
  | .zero => 0
  | .unknown => 0

/-- what the dispatcher's command branch does to the two offsets before the handler task runs, as the
    translator interpreted it per verb (`Generated.Verb.dispatchOffsets`; now: the offset set by REST is handed
    to a RETR/STOR/APPE as its transfer offset, and cleared for every command, an unknown one included) -/
def dispatchEffect (name : Str) : OffSrc × OffSrc :=
  match verbOf name with
  | some v => v.dispatchOffsets
  | none => dispatchOffsetsUnknown

def resetRestart (name : Str) (s : SState) : SState :=
  { s with restartOffset := evalOff s (dispatchEffect name).1, transferOffset := evalOff s (dispatchEffect name).2 }

/-- the path argument a handler passes to `get_paths`: CDUP passes `current_directory.parent` -/
def argOf (s : SState) (v : Verb) (rest : Str) : PPath :=
  if v = .cdup then s.cwd.parent else PPath.parse rest

/-- guards, then body -/
def runVerb (cfg : Cfg) (w : World) (s0 : SState) (v : Verb) (rest : Str) (payload : Bytes) :
    World × SState × Out :=
  match runGuards cfg w s0 (argOf s0 v rest) v.guards with
  | .fail code => (w, s0, { replies := [code] })
  | .crash => (w, { s0 with alive := false }, { crashed := true })
  | .silent => (w, s0, {})
  | .pass => body cfg w s0 v rest (argOf s0 v rest) payload

/-- the dispatcher's treatment of one parsed command -/
def dispatch (cfg : Cfg) (w : World) (s : SState) (name rest : Str) (payload : Bytes) :
    World × SState × Out :=
  match verbOf name with
  | none => (w, resetRestart name s, { replies := [502] })
  | some v => runVerb cfg w (resetRestart name s) v rest payload

def step0 (cfg : Cfg) (w : World) (s : SState) : Event → World × SState × Out
  | .connect =>
    if locked w.serverFree then (w, { s with alive := false }, { replies := [421] })
    else ({ w with serverFree := acquire w.serverFree }, { s with acquired := true }, { replies := [220] })
  | .dataConnect =>
    if s.passive && !s.dataConn then (w, { s with dataConn := true }, {}) else (w, s, {})
  | .finish => let (w', s') := finalize w s; (w', s', {})
  | .line raw payload => dispatch cfg w s (parseCommand raw).1 (parseCommand raw).2 payload

/-- one event; a session that stops being alive runs the dispatcher's `finally` at once -/
def step (cfg : Cfg) (w : World) (s : SState) (ev : Event) : World × SState × Out :=
  let r := step0 cfg w s ev
  if r.2.1.alive then r else ((finalize r.1 r.2.1).1, (finalize r.1 r.2.1).2, r.2.2)

theorem step_of_alive (cfg : Cfg) (w : World) (s : SState) (ev : Event)
    (h : (step0 cfg w s ev).2.1.alive = true) : step cfg w s ev = step0 cfg w s ev := by
  unfold step; simp [h]

end Session
end Model
