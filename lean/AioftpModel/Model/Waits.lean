/-
  `ThrottleStreamIO.wait` (C12, C15): one task per limited throttle, awaited together.

  The caller (a transfer worker, the dispatcher's reader or writer) may be cancelled while it waits - ABOR, the session
  ending, `Server.close()`.  `asyncio.wait` itself never cancels what it waits for; until the repair 31a4e2a nothing
  else did either, and the waits went on sleeping after their caller - and the server - were gone (finding F21).

    finish k   the k-th wait's sleep is over
    cancel     the caller is cancelled (delivered when it next runs)
    resume     the caller runs: if every wait is over, or it has been cancelled, it leaves `wait()` - through the
               `finally` clause that cancels what is still pending, when the source has one (`cancels`)

  Core Lean only.
-/
import AioftpModel.Generated.ThrottleWiring

namespace Model.Waits

inductive Ev
  | finish (k : Nat)
  | cancel
  | resume
  deriving DecidableEq, Repr

structure St where
  pending : List Bool        -- per wait: still asleep?
  cancelled : Bool           -- a cancellation of the caller is on its way
  left : Bool                -- the caller has left `wait()`
  deriving DecidableEq, Repr

def init (n : Nat) : St := { pending := List.replicate n true, cancelled := false, left := false }

def step (cancels : Bool) (s : St) : Ev → St
  | .finish k => { s with pending := s.pending.set k false }
  | .cancel => if s.left then s else { s with cancelled := true }
  | .resume =>
    if s.left then s
    else if s.cancelled || s.pending.all (· == false) then
      { s with left := true, pending := if cancels then s.pending.map (fun _ => false) else s.pending }
    else s

def run (cancels : Bool) (s : St) (evs : List Ev) : St := evs.foldl (step cancels) s

/-- the schedule as the source has it now -/
def runNow (n : Nat) (evs : List Ev) : St := run Generated.throttleWaitCancelsItsWaits (init n) evs

end Model.Waits
