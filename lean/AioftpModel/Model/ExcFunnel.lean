/-
  What becomes of an exception a storage-backend call raises (C13): the funnel `universal_exception` -> handler task
  -> dispatcher.

  `Model.Faults` starts from "a failing backend call raises PathIOError"; this file is where that comes from.  The
  classes the wrapper re-raises unchanged, and that it turns the rest of `Exception` into `PathIOError`, are read off
  the source (`Generated.PathIO.universalExceptionPassThrough`, `…WrapsTheRest`); Python's class hierarchy is stated
  here (`TimeoutError` - which is `asyncio.TimeoutError` - is an `OSError`, an `Exception`; `CancelledError` and
  `KeyboardInterrupt` are not `Exception`s: `Generated.cancelledIsException`).  Core Lean only.
-/
import AioftpModel.Generated.PathIO
import AioftpModel.Generated.Server

namespace Model.ExcFunnel

/-- the classes that matter, by the name the source uses for them -/
inductive Exc
  | cancelled | notImplemented | stopAsyncIteration        -- the three the wrapper names
  | timeout | osError | valueError | attributeError | runtimeError | other   -- `Exception`s a backend may raise
  | keyboardInterrupt                                       -- a `BaseException` that is no `Exception`
  deriving DecidableEq, Repr

def Exc.all : List Exc :=
  [.cancelled, .notImplemented, .stopAsyncIteration, .timeout, .osError, .valueError, .attributeError, .runtimeError, .other, .keyboardInterrupt]

def Exc.sourceName : Exc → Option String
  | .cancelled => some "asyncio.CancelledError"
  | .notImplemented => some "NotImplementedError"
  | .stopAsyncIteration => some "StopAsyncIteration"
  | .timeout => some "asyncio.TimeoutError"
  | .osError => some "OSError"
  | .valueError => some "ValueError"
  | .attributeError => some "AttributeError"
  | .runtimeError => some "RuntimeError"
  | _ => none

/-- `issubclass(e, Exception)` -/
def Exc.isException : Exc → Bool
  | .cancelled => Generated.cancelledIsException
  | .keyboardInterrupt => false
  | _ => true

/-- `except (A, B, C)` with the names of the tuple: does it catch `e`?  (`TimeoutError` is caught by `OSError`.) -/
def caughtBy (names : List String) (e : Exc) : Bool :=
  (match e.sourceName with
   | some n => names.contains n || (n == "asyncio.TimeoutError" && (names.contains "TimeoutError" || names.contains "OSError"))
   | none => false)

/-- what leaves a backend method wrapped in `universal_exception` -/
inductive Raised
  | same (e : Exc)
  | pathIOError
  deriving DecidableEq, Repr

def universalException (pass : List String) (wraps : Bool) (e : Exc) : Raised :=
  if caughtBy pass e then .same e
  else if wraps && e.isException then .pathIOError
  else .same e

/-- what the dispatcher makes of the handler task's exception (`task.result()` in its loop) -/
inductive Fate
  | answered451        -- `except errors.PathIOError: response("451"); continue` : the session goes on
  | sessionEnds        -- any other `Exception`: logged, `finally`, connection closed - no reply
  | propagates         -- `CancelledError` / a `BaseException`: not the dispatcher's to handle
  deriving DecidableEq, Repr

def dispatcherFate : Raised → Fate
  | .pathIOError => .answered451
  | .same e => if e.isException then .sessionEnds else .propagates

/-- the funnel as the source has it now -/
def fateNow (e : Exc) : Fate :=
  dispatcherFate (universalException Generated.PathIO.universalExceptionPassThrough Generated.PathIO.universalExceptionWrapsTheRest e)

end Model.ExcFunnel
