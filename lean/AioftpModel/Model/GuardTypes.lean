/- Fixed vocabulary of the three guarding decorators of server.py.  The translator maps the names it
   finds in the source onto these constructors; a name it does not know is emitted as an unknown
   identifier, so the generated file stops compiling and the change is noticed. -/
namespace Model

/-- keys of `Connection` that `ConnectionConditions` can require -/
inductive Field where
  | user | logged | passiveServer | dataConnection | renameFrom
  deriving DecidableEq, Repr

/-- the four `PathConditions` -/
inductive PathCond where
  | mustExist | mustNotExist | mustBeDir | mustBeFile
  deriving DecidableEq, Repr

inductive Perm where
  | readable | writable
  deriving DecidableEq, Repr

/-- one decorator of a handler -/
inductive Guard where
  | conn (fields : List Field) (wait : Bool) (failCode : Nat)
  | path (conds : List PathCond)
  | perm (perms : List Perm)
  | worker
  deriving DecidableEq, Repr

end Model
