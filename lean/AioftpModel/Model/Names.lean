/-
  C08  the name codecs between aioftp's client and server, transcribed from the code as it is
  (including the PWD quoting defect on both sides).  Core + Model/Py/Generated imports only.

    client.py  "<VERB> " + str(path) [.strip()]      clientCmd / changeDirectoryCmd
    server.py  parse_command                         srvParseCommand
    server.py  get_paths                             Model.getPaths (Model/Paths.lean, C02)
    server.py  pwd:  f'"{current_directory}"'        fmtPwd
    client.py  parse_line  (rstrip, s[:3], s[3:])    replyRest
    client.py  parse_directory_response              parseDirectoryResponse
    server.py  build_mlsx_string / mlst wrapping     buildMlsxString / mlstInfoLine
    client.py  parse_mlsx_line                       parseMlsxLine
-/
import AioftpModel.Model.Paths
import AioftpModel.Py.StrErr
import AioftpModel.Generated.Client

namespace Model.Names
open Py Py.StrErr

/-! ### names the line protocol can carry -/

def endsWithPySpace (n : Str) : Bool :=
  match n.getLast? with
  | some c => isSpace c
  | none => false

def startsWithPySpace (n : Str) : Bool :=
  match n with
  | c :: _ => isSpace c
  | [] => false

/-- "any Unicode text without '/', NUL, CR or LF and without trailing whitespace", that is a name
    (`''`, `.` and `..` are not names).  `Char` excludes surrogates, so every name is encodable. -/
def ValidName (n : Str) : Prop :=
  n ≠ [] ∧ n ≠ ['.'] ∧ n ≠ dotdot ∧ '/' ∉ n ∧ Char.ofNat 0 ∉ n ∧ '\r' ∉ n ∧ '\n' ∉ n ∧
    endsWithPySpace n = false

instance (n : Str) : Decidable (ValidName n) := by unfold ValidName; exact inferInstance

/-! ### client: command construction -/

def END_OF_LINE : Str := ['\r', '\n']

/-- `str(path)` as the client methods evaluate it: `typed = true` when the method first converts the
    argument with `pathlib.PurePosixPath(path)` (or the caller passed a path object), `false` for a
    plain `str` argument handed to `str()` unchanged -/
def clientArg (typed : Bool) (path : Str) : Str :=
  if typed then (PPath.parse path).str else path

/-- `"<VERB> " + str(path)`, optionally `.strip()`ped (MLSD / LIST) -/
def clientCmd (pre : Str) (stripped : Bool) (arg : Str) : Str :=
  if stripped then strip (pre ++ arg) else pre ++ arg

/-- the `"CWD " + str(path)` site of `change_directory`, taken from the generated table (so a rewrite of
    that line, e.g. an added `.strip()`, changes the model with it) -/
def cwdSite : List Char × Bool :=
  match Generated.clientPathCmdSites.find? (fun s => s.1 = "change_directory") with
  | some s => s.2
  | none => (['C', 'W', 'D', ' '], false)

/-- `Client.change_directory(path)` : the command text -/
def changeDirectoryCmd (path : Str) : Str :=
  let p := PPath.parse path
  if p = PPath.parse Generated.clientCdupLiteral then Generated.clientCdupCommand
  else clientCmd cwdSite.1 cwdSite.2 p.str

/-- what `Client.command` writes: `command + END_OF_LINE` (then `.encode`) -/
def wireLine (cmd : Str) : Str := cmd ++ END_OF_LINE

/-! ### server: command parsing -/

/-- `Server.parse_command` on the decoded line: `s = line.rstrip(); cmd, _, rest = s.partition(" ")`,
    returns `(cmd.lower(), rest)` -/
def srvParseCommand (line : Str) : Str × Str :=
  let s := rstrip line
  let (cmd, rest) := partitionSpace s
  (lower cmd, rest)

/-! ### PWD -/

/-- `s.replace('"', '""')` -/
def doubleQuotes (s : Str) : Str := s.flatMap (fun c => if c = '"' then ['"', '"'] else [c])

/-- `directory = str(connection.current_directory).replace('"', '""'); f'"{directory}"'`
    (whether the `replace` is there is read off the source: `Generated.pwdDoublesQuotes`) -/
def fmtPwd (cwd : PPath) : Str :=
  ['"'] ++ (if Generated.pwdDoublesQuotes then doubleQuotes cwd.str else cwd.str) ++ ['"']

/-- a single-line reply `code + " " + text + "\r\n"` as `Client.parse_line` hands it on:
    `s = line.rstrip(); return Code(s[:3]), s[3:]` — this is `info[-1]` -/
def replyRest (code text : Str) : Str :=
  (rstrip (code ++ ' ' :: text ++ END_OF_LINE)).drop 3

/-- the loop of `parse_directory_response` (state: start, quote = "the previous character was a quote not yet
    accounted for", directory); `break` returns -/
def pdrLoop : Str → Bool → Bool → Str → Str
  | [], _, _, dir => dir
  | ch :: rest, start, quote, dir =>
    if !start then
      if ch = '"' then pdrLoop rest true quote dir else pdrLoop rest start quote dir
    else if quote then
      if ch ≠ '"' then dir else pdrLoop rest start false (dir ++ [ch])
    else if ch = '"' then pdrLoop rest start true dir
    else pdrLoop rest start quote (dir ++ [ch])

/-- `Client.parse_directory_response(s)` -/
def parseDirectoryResponse (s : Str) : PPath := PPath.parse (pdrLoop s false false [])

/-- `Client.get_current_directory()` against a server whose cwd is `cwd` -/
def pwdSeenByClient (cwd : PPath) : PPath :=
  parseDirectoryResponse (replyRest ['2', '5', '7'] (fmtPwd cwd))

/-! ### MLSx -/

/-- `build_mlsx_string`: `s = ""; for name, value in facts.items(): s += f"{name}={value};"`,
    then `s += " " + path.name` -/
def buildMlsxString (facts : List (Str × Str)) (name : Str) : Str :=
  (facts.foldl (fun s kv => s ++ (kv.1 ++ '=' :: kv.2 ++ [';'])) []) ++ ' ' :: name

/-- a Python `dict` with `str` keys in insertion order: `d[k] = v` -/
def dictSet (d : List (Str × Str)) (k v : Str) : List (Str × Str) :=
  if d.any (fun p => p.1 = k) then d.map (fun p => if p.1 = k then (k, v) else p)
  else d ++ [(k, v)]

/-- `d[k]` : KeyError when absent -/
def dictGet (d : List (Str × Str)) (k : Str) : Except PyErr Str :=
  match d.find? (fun p => p.1 = k) with
  | some p => .ok p.2
  | none => .error .KeyError

/-- `parse_mlsx_line` on a `str` (never raises) -/
def parseMlsxLine (s : Str) : PPath × List (Str × Str) :=
  let line := rstrip s
  let (factsFound, name) := partitionSpace line
  let entry := (splitOn ';' factsFound.dropLast).foldl
    (fun e fact =>
      let (key, _, value) := partitionCh '=' fact
      dictSet e (lower key) value) []
  (PPath.parse name, entry)

/-- MLST: the server queues `response("250", ["start", s, "end"], True)`, i.e. the middle line goes out
    as `" " + s + "\r\n"`; `parse_line` rstrips it, finds a non-numeric code and re-joins
    `curr_code + rest`; `Client.stat` applies `.lstrip()` -/
def mlstInfoLine (s : Str) : Str :=
  let l := rstrip (' ' :: s ++ END_OF_LINE)
  lstrip (l.take 3 ++ l.drop 3)

end Model.Names
