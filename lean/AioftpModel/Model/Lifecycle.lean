/-
  What a session HOLDS, and what the dispatcher's `finally` block (the only teardown in server.py) gives
  back.  Small-step: the program points are the atomic segments between `await`s of the handlers and of
  the nested transfer workers, in the order the code has them
  (`waitData → takeData → [enter the items of async with in source order] → … → exits → reply`;
   the order of the items is `Generated.Verb.workerContexts`).
-/
import AioftpModel.Generated.Server

namespace Model
namespace Lifecycle
open Generated

/-- the passive listener of a session -/
inductive Listener where
  | none
  | starting (tookPort : Bool)     -- handler is inside `await asyncio.start_server`; a pool port was taken
  | listening (holdsPort : Bool)   -- `connection.passive_server` is set
  deriving DecidableEq, Repr

/-- program counter of a transfer worker -/
inductive WorkerPc where
  | waitData                        -- in the ConnectionConditions(wait=True) wrapper, outside `worker`
  | opening                         -- stream taken out of the session, `await _open` in progress (file verbs)
  | inBody (fileOpen : Bool)        -- inside `async with …` : stream entered, file (if any) open
  deriving DecidableEq, Repr

structure Worker where
  pc : WorkerPc
  deriving DecidableEq, Repr

structure Sess where
  dispatched : Bool := true   -- the dispatcher task has started and registered itself in `connections`
  control : Bool := true      -- control transport open
  listener : Listener := .none
  parked : Bool := false      -- a data connection is parked in the session
  worker : Option Worker := none
  acquired : Bool := true     -- server slot
  user : Bool := false        -- user slot
  deriving DecidableEq, Repr

/-- the kinds of thing the ledger lists -/
inductive Res where
  | controlSocket | listener | poolPort | parkedData | workerData | file | task | connEntry | serverSlot | userSlot
  deriving DecidableEq, Repr

/-- everything a live session holds -/
def held (s : Sess) : List Res :=
  (if s.control then [.controlSocket] else []) ++
  (match s.listener with
    | .none => []
    | .starting p => (if p then [.poolPort] else []) ++ [.task]
    | .listening p => [.listener] ++ (if p then [.poolPort] else [])) ++
  (if s.parked then [.parkedData] else []) ++
  (match s.worker with
    | none => []
    | some w => [.task] ++ (match w.pc with
      | .waitData => []
      | .opening => [.workerData]
      | .inBody f => [.workerData] ++ (if f then [.file] else []))) ++
  (if s.dispatched then [.connEntry, .task] else [.task]) ++
  (if s.acquired then [.serverSlot] else []) ++
  (if s.user then [.userSlot] else [])

/-- does every file-transfer worker enter the stream item of its `async with` before the file item?
    (read off the source: `Generated.Verb.workerContexts`) -/
def streamEnteredBeforeOpen : Bool :=
  [Verb.retr, Verb.stor, Verb.appe].all fun v => v.workerContexts.head? == some Ctx.stream

/-- does a handler cancelled inside `await start_server` give the port it took back?  Either the
    `except OSError` clause sees a CancelledError (never) or there is a clause of its own for it. -/
def cancelReturnsPort : Bool := cancelledIsOSError || passiveCancelReturnsPort

/-- what is left after the dispatcher's `finally` ran (for a dispatched session), as a function of the two
    source facts above:
    * every pending task and worker is cancelled;
      - a worker cancelled in `waitData` held nothing;
      - a worker cancelled inside `async with …` runs the exits of the items it ENTERED;
      - a worker cancelled while the file item's `__aenter__` awaits `_open`: the stream it took out of the
        session is closed iff the stream item was entered first;
    * a handler cancelled inside `await start_server`: the port it took goes back iff some clause handles it;
    * `passive_server` set → closed, port put back; `data_connection` set → closed; control stream closed;
      slots released; entry popped from `connections`. -/
def leftAfterFinallyWith (streamFirst portBack : Bool) (s : Sess) : List Res :=
  (match s.listener with
    | .starting true => if portBack then [] else [.poolPort]
    | _ => []) ++
  (match s.worker with
    | some ⟨.opening⟩ => if streamFirst then [] else [.workerData]
    | _ => [])

/-- the same for the source as it is now -/
def leftAfterFinally (s : Sess) : List Res := leftAfterFinallyWith streamEnteredBeforeOpen cancelReturnsPort s

/-- a session the server cannot reach: accepted, dispatcher task created but not yet started -/
def undispatched : Sess := { dispatched := false }

/-- `Server.close()`: closes the control listener, cancels every dispatcher registered in `connections`,
    waits for them and for `wait_closed()` — which (CPython 3.12.1) returns only when every accepted
    connection is gone.  Returns (what is still held afterwards, close() completed?). -/
def serverCloseWith (refusesLate : Bool) (ss : List Sess) : List Res × Bool :=
  let left := ss.flatMap (fun s =>
    if s.dispatched then leftAfterFinally s
    else if refusesLate then []        -- its dispatcher starts, sees the server is not serving, closes and returns
    else held s)
  (left, refusesLate || ss.all (·.dispatched))

/-- the same for the source as it is now: whether a dispatcher that starts after `close()` refuses to serve is
    regenerated from the source (`if not self.server.is_serving(): writer.close(); return`) -/
def serverClose (ss : List Sess) : List Res × Bool :=
  serverCloseWith Generated.dispatcherRefusesWhenNotServing ss

/-- a peer that vanishes: the session's own dispatcher sees EOF / reset and runs `finally`
    (an undispatched session starts, reads EOF and ends the same way) -/
def peerVanish (s : Sess) : List Res := leftAfterFinally { s with dispatched := true }

/-- what an observer still sees open after a vanish: a socket whose peer was reset is torn down by the
    network itself, so a data socket the server forgot is visible only if the peer had closed its end in
    an orderly way before (half-closed: no reset reaches it) -/
def peerVanishVisible (s : Sess) (dataHalfClosed : Bool) : List Res :=
  (peerVanish s).filter (fun r => r != .workerData || dataHalfClosed)

/-! ### small steps (for reachability statements) -/

inductive Ev where
  | dispatch | login | pasvStart (pool : Bool) | pasvReady | dataConnect
  | transfer (hasFile : Bool)      -- 150 sent, worker task created
  | takeData | openDone | workerEnd | pasvAgain | timeout425
  deriving DecidableEq, Repr

def step (s : Sess) : Ev → Sess
  | .dispatch => { s with dispatched := true }
  | .login => { s with user := true }
  | .pasvStart pool => if s.listener = .none then { s with listener := .starting pool } else s
  | .pasvReady => match s.listener with
    | .starting p => { s with listener := .listening p }
    | _ => s
  | .dataConnect => match s.listener with
    | .listening _ => { s with parked := true }
    | _ => s
  | .transfer _ => if s.worker.isNone then { s with worker := some ⟨.waitData⟩ } else s
  | .takeData => match s.worker with
    | some ⟨.waitData⟩ => if s.parked then { s with parked := false, worker := some ⟨.opening⟩ } else s
    | _ => s
  | .openDone => match s.worker with
    | some ⟨.opening⟩ => { s with worker := some ⟨.inBody true⟩ }
    | _ => s
  | .workerEnd => match s.worker with
    | some ⟨.inBody _⟩ => { s with worker := none }
    | _ => s
  | .pasvAgain => { s with parked := false }
  | .timeout425 => match s.worker with
    | some ⟨.waitData⟩ => { s with worker := none }
    | _ => s

def run (evs : List Ev) : Sess := evs.foldl step undispatched

/-- the two program points at which the pinned tree lost something (findings F6, F8) -/
def atCrashPoint (s : Sess) : Bool :=
  (s.worker == some ⟨.opening⟩) || (s.listener == .starting true)

end Lifecycle
end Model
