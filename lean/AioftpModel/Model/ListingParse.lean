/-
  LIST lines: the server's `build_list_string`, and the client's `parse_unix_mode`,
  `parse_list_line_unix`, `parse_list_line_windows`, the `parse_list_line` chain, the per-line step of
  `Client.list`, and the passive-mode reply parsers `parse_epsv_response` / `parse_pasv_response`.
  Transcribed step by step; every raising primitive keeps its CPython exception class.

  The 12-character date column is opaque here (slice C07 owns dates): the unix parser receives
  `lsDate : Str → Except PyErr Str` for `parse_ls_date`, the windows parser `winDate` for
  `strptime(_, "%m/%d/%Y %I:%M %p")` followed by `format_date_time`.

  A parsed entry is `(PurePosixPath, dict)`; the dict is an insertion-ordered association list with
  `str` values (`unix.mode`, an `int` in Python, is stored as its decimal `str()`).
-/
import AioftpModel.Model.Names
import AioftpModel.Generated.Dates
import AioftpModel.Py.Utf8

namespace Model.ListingParse
open Py Py.StrErr Py.Utf8 Model.Names

abbrev RawLine := List Nat
abbrev Info := List (Str × Str)
abbrev ListEntry := PPath × Info

/-! ### server side -/

/-- `stat.filemode(mode)` (C implementation in `_stat`) -/
def filemode (mode : Nat) : Str :=
  let bit := fun (m : Nat) => mode &&& m != 0
  let ft := mode &&& 0o170000
  let t : Char :=
    if ft = 0o100000 then '-' else if ft = 0o040000 then 'd' else if ft = 0o120000 then 'l'
    else if ft = 0o060000 then 'b' else if ft = 0o020000 then 'c' else if ft = 0o010000 then 'p'
    else if ft = 0o140000 then 's' else '?'
  [ t,
    if bit 0o400 then 'r' else '-',
    if bit 0o200 then 'w' else '-',
    if bit 0o100 then (if bit 0o4000 then 's' else 'x') else (if bit 0o4000 then 'S' else '-'),
    if bit 0o040 then 'r' else '-',
    if bit 0o020 then 'w' else '-',
    if bit 0o010 then (if bit 0o2000 then 's' else 'x') else (if bit 0o2000 then 'S' else '-'),
    if bit 0o004 then 'r' else '-',
    if bit 0o002 then 'w' else '-',
    if bit 0o001 then (if bit 0o1000 then 't' else 'x') else (if bit 0o1000 then 'T' else '-') ]

/-- `build_list_string`: `" ".join((filemode, str(st_nlink), "none", "none", str(st_size), mtime, path.name))`
    with `mtime = build_list_mtime(...)` opaque -/
def buildListString (fm : Str) (nlink size : Nat) (mtime name : Str) : Str :=
  joinWith ' ' [fm, natToStr nlink, "none".toList, "none".toList, natToStr size, mtime, name]

/-! ### client side: unix -/

def parseRw (s : Str) : Except PyErr Nat :=
  if s = ['r', 'w'] then .ok 6
  else if s = ['r', '-'] then .ok 4
  else if s = ['-', 'w'] then .ok 2
  else if s = ['-', '-'] then .ok 0
  else .error .KeyError

/-- one `if s[i] == c: mode |= K … elif s[i] != "-": raise ValueError` chain; the (c, K) pairs and the neutral
    character are read off the source (`Generated.unixModeFlags`, `Generated.unixModeNeutral`) -/
def modeFlag (i : Nat) (c : Char) (mode : Nat) : Except PyErr Nat :=
  match ((Generated.unixModeFlags.lookup i).getD []).lookup c with
  | some v => pure (mode ||| v)
  | none => if Generated.unixModeNeutral.contains c then pure mode else throw PyErr.ValueError

/-- `parse_unix_mode(s)` -/
def parseUnixMode (s : Str) : Except PyErr Nat := do
  let a ← parseRw (slice s 0 2)
  let b ← parseRw (slice s 3 5)
  let c ← parseRw (slice s 6 8)
  let mode := (a <<< 6) ||| (b <<< 3) ||| c
  let c2 ← getIdx s 2
  let mode ← modeFlag 2 c2 mode
  let c5 ← getIdx s 5
  let mode ← modeFlag 5 c5 mode
  let c8 ← getIdx s 8
  let mode ← modeFlag 8 c8 mode
  pure mode

def typeOfChar (c : Char) : Str :=
  if c = '-' then "file".toList else if c = 'd' then "dir".toList
  else if c = 'l' then "link".toList else "unknown".toList

def arrow : Str := [' ', '-', '>', ' ']

/-- one `i = s.index(" "); field = s[:i]; s = s[i:].lstrip()` step (the check in between is the caller's) -/
def takeField (s : Str) : Except PyErr (Str × Str) := do
  let i ← index ' ' s
  pure (s.take i, s.drop i)

/-- `parse_list_line_unix` after `b.decode(encoding)` -/
def parseListLineUnixStr (lsDate : Str → Except PyErr Str) (s0 : Str) : Except PyErr ListEntry := do
  let s := rstrip s0
  let c0 ← getIdx s 0
  let ty := typeOfChar c0
  let mode ← parseUnixMode (slice s 1 10)
  let s := lstrip (s.drop 10)
  let (links, s) ← takeField s
  if !isDigit links then throw PyErr.ValueError
  let s := lstrip s
  let (owner, s) ← takeField s
  let s := lstrip s
  let (group, s) ← takeField s
  let s := lstrip s
  let (size, s) ← takeField s
  if !isDigit size then throw PyErr.ValueError
  let s := lstrip s
  let modify ← lsDate (strip (s.take 12))
  let s := strip (s.drop 12)
  let base : Info :=
    [("unix.mode".toList, natToStr mode), ("unix.links".toList, links), ("unix.owner".toList, owner),
     ("unix.group".toList, group), ("size".toList, size), ("modify".toList, modify)]
  if ty = "link".toList then
    let i ← rindex arrow s
    let linkDst := s.drop (i + 4)
    let linkSrc := s.take i
    let last ← getIdxNeg linkDst 1
    let k := if last = '\'' ∨ last = '"' then 2 else 1
    let ch ← getIdxNeg linkDst k
    let ty' := if ch = '/' then "dir".toList else "file".toList
    pure (PPath.parse linkSrc, ("type".toList, ty') :: base ++ [("link_dst".toList, linkDst)])
  else
    pure (PPath.parse s, ("type".toList, ty) :: base)

/-- `parse_list_line_unix(b)` with `encoding = "utf-8"` -/
def parseListLineUnix (lsDate : Str → Except PyErr Str) (b : RawLine) : Except PyErr ListEntry := do
  let s ← decodeUtf8E b
  parseListLineUnixStr lsDate s

/-! ### client side: windows -/

def dirTag : Str := ['<', 'D', 'I', 'R', '>']

/-- `parse_list_line_windows` after decoding -/
def parseListLineWindowsStr (winDate : Str → Except PyErr Str) (s0 : Str) : Except PyErr ListEntry := do
  let line := rstripCRLF s0
  let dateTimeEnd ← index 'M' line
  let pieces := splitOn ' ' (strip (line.take (dateTimeEnd + 1)))
  let dateTimeStr := joinWith ' ' (pieces.filter (fun x => x.length > 0))
  let line := lstrip (line.drop (dateTimeEnd + 1))
  let modify ← winDate dateTimeStr
  let nextSpace ← index ' ' line
  let info ← (if startsWith line dirTag then
      pure [("modify".toList, modify), ("type".toList, "dir".toList)]
    else
      let size := removeCh ',' (line.take nextSpace)
      if !isDigit size then throw PyErr.ValueError
      else pure [("modify".toList, modify), ("type".toList, "file".toList), ("size".toList, size)]
      : Except PyErr Info)
  let filename := lstrip (line.drop nextSpace)
  if filename = ['.'] ∨ filename = dotdot then throw PyErr.ValueError
  pure (PPath.parse filename, info)

def parseListLineWindows (winDate : Str → Except PyErr Str) (b : RawLine) : Except PyErr ListEntry := do
  let s ← decodeUtf8E b
  parseListLineWindowsStr winDate s

/-! ### the chain -/

/-- `parse_list_line` with `parse_list_line_custom = None` (the default): unix, then windows;
    `except (ValueError, KeyError, IndexError)` moves on, anything else escapes;
    `raise ValueError("All parsers failed to parse", b, ex)` at the end -/
def parseListLine (lsDate winDate : Str → Except PyErr Str) (b : RawLine) : Except PyErr ListEntry :=
  match parseListLineUnix lsDate b with
  | .ok r => .ok r
  | .error e =>
    if e.caughtByListChain then
      match parseListLineWindows winDate b with
      | .ok r => .ok r
      | .error e' => if e'.caughtByListChain then .error .ValueError else .error e'
    else .error e

/-- `parse_mlsx_line(b)` for `bytes` -/
def parseMlsxLineBytes (b : RawLine) : Except PyErr ListEntry := do
  let s ← decodeUtf8E b
  pure (parseMlsxLine s)

/-! ### `Client.list` : what happens to one received line -/

/-- body of `__anext__` for one line: parse, skip `.`/`..`, read `info["type"]`, yield `cls.path / name`
    (`α` is the line type: `bytes` from the data stream) -/
def listStepWith (typeRaises : Bool) {α : Type} (parse : α → Except PyErr ListEntry) (path : PPath) (line : α) :
    Except PyErr (Option ListEntry) := do
  let (name, info) ← parse line
  if name.str = ['.'] ∨ name.str = dotdot then pure none
  else if typeRaises then
    let _ ← dictGet info "type".toList      -- `info["type"] == "dir" and recursive`
    pure (some (path.join name, info))
  else
    pure (some (path.join name, info))      -- `info.get("type") == "dir" and recursive`

/-- the loop body as the source has it now: how the `type` fact is read is regenerated from the source -/
def listStep {α : Type} (parse : α → Except PyErr ListEntry) (path : PPath) (line : α) :
    Except PyErr (Option ListEntry) :=
  listStepWith Generated.listTypeLookupRaises parse path line

/-- all lines of one data stream, in order; the first exception ends the listing -/
def listLines {α : Type} (parse : α → Except PyErr ListEntry) (path : PPath) :
    List α → Except PyErr (List ListEntry)
  | [] => pure []
  | l :: ls => do
    let r ← listStep parse path l
    let rs ← listLines parse path ls
    pure (match r with | some e => e :: rs | none => rs)

/-! ### passive-mode replies -/

/-- `re.findall(r"[^(]*\(([^)]*)", s)[0]` : text after the first `(` up to the next `)` or the end -/
def firstParenGroup : Str → Option Str
  | [] => none
  | c :: r => if c = '(' then some (r.takeWhile (· ≠ ')')) else firstParenGroup r

/-- `parse_pasv_response(s)` -/
def parsePasvResponse (s : Str) : Except PyErr (Str × Int) := do
  let sub ← (match firstParenGroup s with
    | some x => pure x
    | none => throw PyErr.ValueError : Except PyErr Str)     -- `sub, *_ = []`
  let nums ← (splitOn ',' sub).mapM pyInt
  let ip := joinWith '.' ((nums.take 4).map intToStr)
  let n4 ← tupleIdx nums 4
  let n5 ← tupleIdx nums 5
  pure (ip, pyOr (n4 * 256) n5)

/-- one attempt of `\((.)\1\1\d+\1\)` at the head of `s`: the `\d+` text and the match length -/
def epsvMatchAt : Str → Option (Str × Nat)
  | '(' :: d :: d2 :: d3 :: rest =>
    if d ≠ '\n' ∧ d2 = d ∧ d3 = d then
      let run := (rest.takeWhile isDecimalCh).length
      -- greedy `\d+`, backtracking from the longest run down to one digit
      match ((List.range run).reverse.map (· + 1)).find? (fun k => (rest.drop k).take 2 = [d, ')']) with
      | some k => some (rest.take k, k + 6)
      | none => none
    else none
  | _ => none

/-- `re.finditer` : leftmost, non-overlapping (fuel = remaining length + 1) -/
def epsvFindAll : Nat → Str → List Str
  | 0, _ => []
  | _, [] => []
  | fuel + 1, c :: r =>
    match epsvMatchAt (c :: r) with
    | some (digits, len) => digits :: epsvFindAll fuel ((c :: r).drop len)
    | none => epsvFindAll fuel r

/-- `parse_epsv_response(s)` : the port (the first component is always `None`) -/
def parseEpsvResponse (s : Str) : Except PyErr Int :=
  match (epsvFindAll (s.length + 1) s).getLast? with
  | none => .error .IndexError                 -- `matches[-1]` on an empty tuple
  | some digits => pyInt digits

end Model.ListingParse
