/-
  `MemoryPathIO` as the server can reach it, on a flat map from path (list of names below the backend
  root) to entry.  Directory order is not modelled (every comparison sorts); everything else follows the
  code as written, including: `rename` detaching the source before it looks at the destination parent
  (source lost when the destination parent is a file; a directory renamed into itself disappears),
  and `r+b` creating a missing file.
-/
import AioftpModel.Py.Str

namespace Model
open Py

abbrev Path := List Str
abbrev Bytes := List Nat

inductive Entry where
  | dir
  | file (content : Bytes)
  deriving DecidableEq, Repr

/-- the tree: association list path ↦ entry; the root `[]` is an implicit directory -/
abbrev Fs := List (Path × Entry)

namespace Fs

def lookup (fs : Fs) (p : Path) : Option Entry :=
  if p = [] then some .dir else (fs.find? (fun e => e.1 = p)).map (·.2)

def exists_ (fs : Fs) (p : Path) : Bool := (lookup fs p).isSome
def isDir (fs : Fs) (p : Path) : Bool := lookup fs p == some .dir
def isFile (fs : Fs) (p : Path) : Bool :=
  match lookup fs p with
  | some (.file _) => true
  | _ => false

def erase (fs : Fs) (p : Path) : Fs := fs.filter (fun e => e.1 ≠ p)

def set (fs : Fs) (p : Path) (e : Entry) : Fs :=
  if fs.any (fun x => x.1 = p) then fs.map (fun x => if x.1 = p then (p, e) else x) else fs ++ [(p, e)]

/-- entries strictly below `p` -/
def below (fs : Fs) (p : Path) : Fs := fs.filter (fun e => p.isPrefixOf e.1 && e.1.length > p.length)

def children (fs : Fs) (p : Path) : List Path :=
  (fs.filter (fun e => e.1.length = p.length + 1 && p.isPrefixOf e.1)).map (·.1)

/-- all non-empty proper-or-improper prefixes of `p`, shortest first -/
def prefixes (p : Path) : List Path := (List.range p.length).map (fun i => p.take (i + 1))

/-- `mkdir(path, parents=True)` (exist_ok False) : `none` = exception, tree unchanged -/
def mkdirParents (fs : Fs) (p : Path) : Option Fs :=
  if exists_ fs p then none
  else if (prefixes p).any (fun q => isFile fs q) then none
  else some ((prefixes p).foldl (fun acc q => if exists_ acc q then acc else acc ++ [(q, .dir)]) fs)

/-- `rmdir` -/
def rmdir (fs : Fs) (p : Path) : Option Fs :=
  if p = [] then none
  else if !isDir fs p then none
  else if !(children fs p).isEmpty then none
  else some (erase fs p)

/-- `unlink` -/
def unlink (fs : Fs) (p : Path) : Option Fs :=
  if isFile fs p then some (erase fs p) else none

/-- move the subtree at `src` to `dst` (entry itself plus everything below) -/
def moveSubtree (fs : Fs) (src dst : Path) : Fs :=
  let moved := fs.filter (fun e => src.isPrefixOf e.1)
  let rest := fs.filter (fun e => !src.isPrefixOf e.1)
  -- an existing destination entry is replaced (with everything below it dropped from view)
  let rest := rest.filter (fun e => !dst.isPrefixOf e.1)
  rest ++ moved.map (fun e => (dst ++ e.1.drop src.length, e.2))

/-- `rename(source, destination)` : returns (new tree, ok?).  As repaired in /repo (finding F7 a, b, d): the
    source must exist (also when both paths are the same), the destination's parent must be a directory, a
    directory cannot be moved below itself — each refused before anything is detached. -/
def rename (fs : Fs) (src dst : Path) : Fs × Bool :=
  match lookup fs src with
  | none => (fs, false)                               -- `snode is None`: FileNotFoundError
  | some _ =>
    if src = dst then (fs, true)
    else if src = [] ∨ dst = [] then (fs, false)      -- root as either end: not reachable through RNFR/RNTO guards
    else
      match lookup fs dst.dropLast with
      | none => (fs, false)                           -- FileNotFoundError
      | some (.file _) => (fs, false)                 -- NotADirectoryError
      | some .dir =>
        if src.isPrefixOf dst then (fs, false)        -- EINVAL: `source in destination.parents`
        else if !exists_ fs src.dropLast then (fs, false)
        else (moveSubtree fs src dst, true)

/-- `rename` as it was on the pinned tree: the tree may change even when it fails (kept for the witnesses) -/
def renameOld (fs : Fs) (src dst : Path) : Fs × Bool :=
  if src = dst then (fs, true)
  else if src = [] ∨ dst = [] then (fs, false)
  else
    let sparentOk := exists_ fs src.dropLast
    let dparent := lookup fs dst.dropLast
    let snode := lookup fs src
    match snode, dparent with
    | none, _ => (fs, false)
    | _, none => (fs, false)
    | some _, some dp =>
      if !sparentOk then (fs, false) else
      let detached := fs.filter (fun e => !src.isPrefixOf e.1)
      match dp with
      | .file _ => (detached, false)             -- `dparent.content` is a BytesIO: AttributeError after the pop
      | .dir =>
        if src.isPrefixOf dst then (detached, true)   -- directory moved under itself: unreachable afterwards
        else (moveSubtree fs src dst, true)

/-- `_open(path, mode)` outcome: the tree after opening and the content the handle starts with;
    `none` = exception. modes: 0 rb, 1 wb, 2 ab, 3 r+b.  As repaired (F7 c): `r+b` never creates. -/
def openFile (fs : Fs) (p : Path) (mode : Nat) : Option (Fs × Bytes × Nat) :=
  match mode with
  | 0 => match lookup fs p with
    | some (.file c) => some (fs, c, 0)
    | some .dir => none               -- `node.content` is a list for a directory: `.seek` raises
    | none => none
  | _ =>
    if p = [] then none else
    match lookup fs p with
    | none =>
      if mode = 1 ∨ mode = 2 then
        (if isDir fs p.dropLast then some (fs ++ [(p, .file [])], [], 0) else none)
      else none                       -- `r+b` on a missing file: FileNotFoundError
    | some .dir => none
    | some (.file c) =>
      if mode = 1 then some (set fs p (.file []), [], 0)
      else if mode = 2 then some (fs, c, c.length)
      else some (fs, c, 0)

/-- `_open` as it was on the pinned tree: `r+b` created a missing file (kept for the witness) -/
def openFileOld (fs : Fs) (p : Path) (mode : Nat) : Option (Fs × Bytes × Nat) :=
  match mode with
  | 0 => openFile fs p 0
  | _ =>
    if p = [] then none else
    match lookup fs p with
    | none => if isDir fs p.dropLast then some (fs ++ [(p, .file [])], [], 0) else none
    | some .dir => none
    | some (.file c) =>
      if mode = 1 then some (set fs p (.file []), [], 0)
      else if mode = 2 then some (fs, c, c.length)
      else some (fs, c, 0)

/-- `BytesIO.write` at position `pos` (zero-fill past the end), returns new content -/
def writeAt (c : Bytes) (pos : Nat) (data : Bytes) : Bytes :=
  if data.isEmpty then c else
  let padded := if pos > c.length then c ++ List.replicate (pos - c.length) 0 else c
  padded.take pos ++ data ++ padded.drop (pos + data.length)

def size (fs : Fs) (p : Path) : Nat :=
  match lookup fs p with
  | some (.file c) => c.length
  | _ => 0

end Fs
end Model
