/-
  Backend calls of every command, in program order, and what a failing call does.

  A command is a *program*: the list of atomic segments between `await`s, built from the decorator stack
  the translator recovered (`Generated.Verb.guards`: one backend probe per `PathConditions` entry) followed
  by the hand-transcribed handler body / nested worker.  A fault at the k-th backend call raises
  `PathIOError` there; the model unwinds exactly as the worker's `async with` does (only contexts that were
  ENTERED are exited; the order of the items is `Generated.Verb.workerContexts`, read off the source) and the dispatcher answers 451.
-/
import AioftpModel.Generated.Server

namespace Model
namespace Faults
open Generated

inductive Call where
  | exists_ | isDir | isFile | stat | listStep | mkdir | rmdir | unlink | rename
  | open_ | seek | read | write | close
  deriving DecidableEq, Repr

inductive Seg where
  | call (c : Call)       -- awaited backend call: may fault
  | reply (code : Nat)    -- connection.response(code, …)
  | takeData              -- `stream = connection.data_connection; del connection.data_connection`
  | enterFile             -- `file.__aenter__` returned: the file is open
  | enterStream           -- `stream.__aenter__`
  | exitStream            -- `stream.__aexit__` : the data socket is closed
  | exitFile              -- `file.__aexit__` finished (its `close` call precedes it)
  deriving DecidableEq, Repr

structure St where
  replies : List Nat := []
  ownsData : Bool := false      -- worker took the data connection out of the session
  streamEntered : Bool := false
  fileOpen : Bool := false
  dataClosed : Bool := false
  calls : Nat := 0              -- backend calls made so far
  faulted : Option Call := none -- the call that raised PathIOError (execution stops there)
  deriving DecidableEq, Repr

def callOfCond : PathCond → Call
  | .mustExist => .exists_
  | .mustNotExist => .exists_
  | .mustBeDir => .isDir
  | .mustBeFile => .isFile

/-- backend probes made by a decorator stack when every condition passes -/
def guardCalls : List Guard → List Seg
  | [] => []
  | .path conds :: gs => conds.map (fun c => Seg.call (callOfCond c)) ++ guardCalls gs
  | _ :: gs => guardCalls gs

/-- shape parameters of the situation a command runs in -/
structure Shape where
  targetIsFile : Bool := true        -- MLST: `is_file` true → no `is_dir` probe
  entries : List Bool := []          -- LIST/MLSD: one flag per directory entry (true = file)
  blocks : Nat := 1                  -- RETR/STOR: number of non-empty data blocks
  offset : Bool := false             -- restart offset set → `seek`
  deriving Repr

/-- `build_mlsx_string` : exists, stat, is_file, [is_dir] -/
def mlsxCalls (isFile : Bool) : List Seg :=
  [.call .exists_, .call .stat, .call .isFile] ++ (if isFile then [] else [.call .isDir])

/-- entering / leaving one item of the worker's `async with` (`path_io.open(…)` is awaited inside the
    file item's `__aenter__`, `close` inside its `__aexit__`) -/
def enterCtx : Ctx → List Seg
  | .stream => [.enterStream]
  | .file => [.call .open_, .enterFile]

def exitCtx : Ctx → List Seg
  | .stream => [.exitStream]
  | .file => [.call .close, .exitFile]

/-- items are entered left to right and left right to left, in the order the translator read off the source -/
def enters (v : Verb) : List Seg := v.workerContexts.flatMap enterCtx
def exits (v : Verb) : List Seg := v.workerContexts.reverse.flatMap exitCtx

def body (v : Verb) (sh : Shape) : List Seg :=
  match v with
  | .cwd | .cdup => [.reply 250]
  | .mkd => [.call .mkdir, .reply 257]
  | .rmd => [.call .rmdir, .reply 250]
  | .dele => [.call .unlink, .reply 250]
  | .rnfr => [.reply 350]
  | .rnto => [.call .rename, .reply 250]
  | .mlst => mlsxCalls sh.targetIsFile ++ [.reply 250]
  | .list =>
    [.reply 150, .takeData] ++ enters .list ++
    sh.entries.flatMap (fun _ => [Seg.call .listStep, .call .exists_, .call .stat]) ++
    [.call .listStep] ++ exits .list ++ [.reply 226]
  | .mlsd =>
    [.reply 150, .takeData] ++ enters .mlsd ++
    sh.entries.flatMap (fun f => Seg.call .listStep :: mlsxCalls f) ++
    [.call .listStep] ++ exits .mlsd ++ [.reply 200]
  | .retr =>
    [.reply 150, .takeData] ++ enters .retr ++
    (if sh.offset then [.call .seek] else []) ++
    (List.replicate sh.blocks (Seg.call .read)) ++
    [.call .read] ++ exits .retr ++ [.reply 226]
  | .stor | .appe =>
    [.call .isDir, .reply 150, .takeData] ++ enters v ++
    (if sh.offset then [.call .seek] else []) ++
    (List.replicate sh.blocks (Seg.call .write)) ++
    exits v ++ [.reply 226]
  | .pwd => [.reply 257]
  | .type | .pbsz | .prot => [.reply 200]
  | .syst => [.reply 215]
  | .quit => [.reply 221]
  | .abor => [.reply 226]
  | .rest => [.reply 350]
  | .epsv => [.reply 229]
  | .pasv => [.reply 227]
  | .user => [.reply 230]
  | .pass => [.reply 230]

/-- the whole program of a command whose guards all pass -/
def program (v : Verb) (sh : Shape) : List Seg := guardCalls v.guards ++ body v sh

def backendCalls (p : List Seg) : List Call :=
  p.filterMap (fun s => match s with | .call c => some c | _ => none)

/-- unwinding after `PathIOError` in call `c`: exit the contexts that were ENTERED (stream, then file),
    the dispatcher answers 451 -/
def unwind (s : St) (c : Call) : St :=
  { s with
    dataClosed := s.dataClosed || s.streamEntered,
    streamEntered := false,
    fileOpen := false,
    faulted := some c,
    replies := s.replies ++ [451] }

/-- one segment; backend call number `k` (0-based) faults; nothing happens after a fault -/
def stepSeg (k : Option Nat) (s : St) (seg : Seg) : St :=
  if s.faulted.isSome then s else
  match seg with
  | .call c =>
    if k = some s.calls then unwind { s with calls := s.calls + 1 } c
    else { s with calls := s.calls + 1 }
  | .reply c => { s with replies := s.replies ++ [c] }
  | .takeData => { s with ownsData := true }
  | .enterFile => { s with fileOpen := true }
  | .enterStream => { s with streamEntered := true }
  | .exitStream => { s with streamEntered := false, dataClosed := true }
  | .exitFile => { s with fileOpen := false }

def exec (k : Option Nat) (p : List Seg) (s : St) : St := p.foldl (stepSeg k) s

def run (v : Verb) (sh : Shape) (k : Option Nat) : St := exec k (program v sh) {}

def isSuccess (c : Nat) : Bool := 200 ≤ c && c < 300
def isMark (c : Nat) : Bool := 100 ≤ c && c < 200

end Faults
end Model
