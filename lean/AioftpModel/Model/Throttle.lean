/-
  Model of the speed-limit machinery (property C15), transcribed from
  /repo/src/aioftp/common.py (`Throttle`, `StreamThrottle`, `ThrottleStreamIO`) and the wiring in
  server.py / client.py.  Time is `Rat`.  Core imports only.

  Aliasing matters (one `Throttle` object can be reached from many streams), so throttles live in
  a store (`List Throttle`) and are referred to by index.
-/
import AioftpModel.Py.Num
import AioftpModel.Py.Str

namespace Model.Throttling
open Py

/-! ## `class Throttle` -/

/-- the four attributes `_limit`, `reset_rate`, `_start`, `_sum` -/
structure Throttle where
  limit : Option Int
  resetRate : Rat
  start : Option Rat
  sum : Int
  deriving Repr, DecidableEq

/-- `Throttle(limit=…, reset_rate=…)` -/
def Throttle.new (limit : Option Int := none) (resetRate : Rat := 10) : Throttle :=
  ⟨limit, resetRate, none, 0⟩

/-- `self._limit is not None and self._limit > 0` -/
def Throttle.on (t : Throttle) : Bool :=
  match t.limit with
  | some l => decide (0 < l)
  | none => false

/-- truth value of `throttle.limit` as tested by `ThrottleStreamIO.wait` (`None` and `0` are falsy) -/
def Throttle.truthy (t : Throttle) : Bool :=
  match t.limit with
  | some l => l != 0
  | none => false

/-- `Throttle.wait` called at `now`: `none` = returns without sleeping;
    `some d` = `await asyncio.sleep(d)` with `d = max(0, self._start + self._sum / self._limit - now)` -/
def Throttle.waitDelay (t : Throttle) (now : Rat) : Option Rat :=
  match t.limit, t.start with
  | some l, some s =>
    if 0 < l then some (max 0 (s + (t.sum : Rat) / (l : Rat) - now)) else none
  | _, _ => none

/-- the instant at which `await throttle.wait()` entered at `now` returns -/
def Throttle.waitUntil (t : Throttle) (now : Rat) : Rat :=
  match t.waitDelay now with
  | some d => now + d
  | none => now

/-- does `append(data, start)` take the `reset_rate` branch? -/
def Throttle.folds (t : Throttle) (start : Rat) : Bool :=
  match t.limit with
  | some l => decide (0 < l) && decide (t.resetRate < start - t.start.getD start)
  | none => false

/-- `Throttle.append(data, start)` with `n = len(data)` -/
def Throttle.append (t : Throttle) (n : Nat) (start : Rat) : Throttle :=
  match t.limit with
  | some l =>
    if 0 < l then
      -- if self._start is None: self._start = start
      let s0 := t.start.getD start
      -- if start - self._start > self.reset_rate: fold
      let (sum1, s1) :=
        if t.resetRate < start - s0 then (t.sum - roundHalfEven ((start - s0) * (l : Rat)), start)
        else (t.sum, s0)
      { t with start := some s1, sum := sum1 + (n : Int) }
    else t
  | none => t

/-- the `limit` property setter -/
def Throttle.setLimit (t : Throttle) (v : Option Int) : Throttle :=
  { t with limit := v, start := none, sum := 0 }

/-- `Throttle.clone()` : same limit and reset rate, no memory -/
def Throttle.clone (t : Throttle) : Throttle := Throttle.new t.limit t.resetRate

/-! ## store of throttle objects -/

abbrev Store := List Throttle

/-- apply `f` to the element at index `i` (no-op when out of range) -/
def updAt {α : Type} (f : α → α) : List α → Nat → List α
  | [], _ => []
  | a :: l, 0 => f a :: l
  | a :: l, i + 1 => a :: updAt f l i

/-! ## `ThrottleStreamIO` for one direction

`ids` is the list, in dict order, of the throttles `getattr(st, name)` for `st in
self.throttles.values()`. -/

/-- `await self.wait(name)` entered at `now` returns at this instant: one task per throttle whose
    `.limit` is truthy, `asyncio.wait` = all of them, i.e. the latest. -/
def waitAll (store : Store) (ids : List Nat) (now : Rat) : Rat :=
  ids.foldl (fun acc i =>
    match store[i]? with
    | some t => if t.truthy then max acc (t.waitUntil now) else acc
    | none => acc) now

/-- number of tasks `wait(name)` creates (0 = it does not even suspend) -/
def waitTasks (store : Store) (ids : List Nat) : Nat :=
  (ids.filter fun i => match store[i]? with | some t => t.truthy | none => false).length

/-- `self.append(name, data, start)`: every throttle of the direction, limited or not -/
def appendAll (store : Store) (ids : List Nat) (n : Nat) (start : Rat) : Store :=
  ids.foldl (fun st i => updAt (fun t => t.append n start) st i) store

/-- fold decisions of one `append` call, per throttle in dict order -/
def foldFlags (store : Store) (ids : List Nat) (start : Rat) : List Bool :=
  ids.map fun i => match store[i]? with | some t => t.folds start | none => false

/-! ### one stream used sequentially: `read`/`readline`/`write` in a loop -/

/-- one I/O: `n` bytes, the raw read/drain takes `dur`, the caller idles `gap` before calling -/
structure IOStep where
  n : Nat
  dur : Rat
  gap : Rat
  deriving Repr

/-- what one `read`/`write` call does; `start = _now()` is taken after the wait -/
structure IORec where
  called : Rat
  start : Rat
  folds : List Bool
  deriving Repr

def runStream (store : Store) (ids : List Nat) (now : Rat) : List IOStep → List IORec × Store × Rat
  | [] => ([], store, now)
  | s :: rest =>
    let called := now + s.gap
    let start := waitAll store ids called
    let rec_ : IORec := ⟨called, start, foldFlags store ids start⟩
    let store' := appendAll store ids s.n start
    let (l, sf, tf) := runStream store' ids (start + s.dur) rest
    (rec_ :: l, sf, tf)

/-! ### several streams (or the two directions of one stream) over one store, any schedule -/

inductive Phase where
  | idle
  | waiting (u : Rat)                     -- inside `await self.wait(name)`, returns at `u`
  | inflight (start : Rat) (n : Nat)      -- raw I/O running, `start = _now()` taken, `n` bytes
  deriving Repr, DecidableEq

structure Proc where
  ids : List Nat
  phase : Phase
  deriving Repr

structure Sys where
  store : Store
  procs : List Proc
  now : Rat
  deriving Repr

inductive Ev where
  /-- stream `j` calls `read`/`write` at time `w` -/
  | call (j : Nat) (w : Rat)
  /-- its wait is over, `start = _now() = T`, the raw I/O of `n` bytes begins -/
  | begin (j : Nat) (T : Rat) (n : Nat)
  /-- the raw I/O returns at time `e`; `append(name, data, start)` runs -/
  | done (j : Nat) (e : Rat)
  deriving Repr

def setPhase (procs : List Proc) (j : Nat) (ph : Phase) : List Proc :=
  updAt (fun p => { p with phase := ph }) procs j

/-- one scheduler step; `none` when the event is impossible in this state
    (wrong phase, time running backwards, I/O starting before its wait is over) -/
def Sys.step (s : Sys) : Ev → Option Sys
  | .call j w =>
    match s.procs[j]? with
    | some ⟨ids, .idle⟩ =>
      if s.now ≤ w then
        some { s with procs := setPhase s.procs j (.waiting (waitAll s.store ids w)), now := w }
      else none
    | _ => none
  | .begin j T n =>
    match s.procs[j]? with
    | some ⟨_, .waiting u⟩ =>
      if s.now ≤ T ∧ u ≤ T then
        some { s with procs := setPhase s.procs j (.inflight T n), now := T }
      else none
    | _ => none
  | .done j e =>
    match s.procs[j]? with
    | some ⟨ids, .inflight st n⟩ =>
      if s.now ≤ e then
        some { store := appendAll s.store ids n st, procs := setPhase s.procs j .idle, now := e }
      else none
    | _ => none

def Sys.run (s : Sys) : List Ev → Option Sys
  | [] => some s
  | e :: es => match s.step e with
    | some s' => s'.run es
    | none => none

/-! ## `StreamThrottle` and the wiring -/

/-- `StreamThrottle(read, write)`: two throttle objects (store indices) -/
structure StreamThrottle where
  read : Nat
  write : Nat
  deriving Repr, DecidableEq

inductive Dir where
  | read | write
  deriving Repr, DecidableEq

def StreamThrottle.get (st : StreamThrottle) : Dir → Nat
  | .read => st.read
  | .write => st.write

/-- `StreamThrottle.from_limits(r, w)`: two fresh `Throttle`s (default `reset_rate=10`) -/
def StreamThrottle.fromLimits (store : Store) (r w : Option Int) : Store × StreamThrottle :=
  (store ++ [Throttle.new r, Throttle.new w], ⟨store.length, store.length + 1⟩)

/-- `StreamThrottle.clone()` -/
def StreamThrottle.clone (store : Store) (st : StreamThrottle) : Store × StreamThrottle :=
  let r := (store[st.read]?.getD (Throttle.new)).clone
  let w := (store[st.write]?.getD (Throttle.new)).clone
  (store ++ [r, w], ⟨store.length, store.length + 1⟩)

/-- a `throttles` dict: insertion-ordered, `update` replaces the value of an existing key in place -/
abbrev ThrottleDict := List (String × StreamThrottle)

def ThrottleDict.update (d : ThrottleDict) (k : String) (v : StreamThrottle) : ThrottleDict :=
  if d.any (fun e => e.1 == k) then d.map (fun e => if e.1 == k then (k, v) else e) else d ++ [(k, v)]

/-- the throttle objects one direction of a stream with this dict waits on / appends to -/
def ThrottleDict.ids (d : ThrottleDict) (dir : Dir) : List Nat := d.map fun e => e.2.get dir

/-- limits of one user as stored on `aioftp.User` -/
structure UserLimits where
  read : Option Int
  write : Option Int
  readPerConn : Option Int
  writePerConn : Option Int
  deriving Repr

/-- the throttle-relevant part of `Server`; `conns[i]` is connection i's
    `command_connection.throttles` — the *same dict object* is handed to every data connection of
    that session, so there is no separate entry for data streams. -/
structure ServerW where
  store : Store
  throttle : StreamThrottle
  perConnection : StreamThrottle
  perUser : List (Nat × StreamThrottle)
  conns : List ThrottleDict
  deriving Repr

/-- `Server.__init__` -/
def ServerW.init (r w rc wc : Option Int) : ServerW :=
  let (s1, g) := StreamThrottle.fromLimits [] r w
  let (s2, pc) := StreamThrottle.fromLimits s1 rc wc
  ⟨s2, g, pc, [], []⟩

/-- `Server.dispatcher`: `dict(server_global=self.throttle,
    server_per_connection=self.throttle_per_connection.clone())` -/
def ServerW.connect (sv : ServerW) : ServerW :=
  let (s1, c) := sv.perConnection.clone sv.store
  { sv with store := s1, conns := sv.conns ++ [[("server_global", sv.throttle), ("server_per_connection", c)]] }

/-- the tail of `Server.user` once `connection.future.user` is set: connection `c`, user identity `u` -/
def ServerW.login (sv : ServerW) (c : Nat) (u : Nat) (lim : UserLimits) : ServerW :=
  let (s1, perUser, ug) :=
    match sv.perUser.find? (fun e => e.1 == u) with
    | some e => (sv.store, sv.perUser, e.2)
    | none =>
      let (s, t) := StreamThrottle.fromLimits sv.store lim.read lim.write
      (s, sv.perUser ++ [(u, t)], t)
  let (s2, upc) := StreamThrottle.fromLimits s1 lim.readPerConn lim.writePerConn
  { sv with store := s2, perUser := perUser,
            conns := updAt (fun d => (d.update "user_global" ug).update "user_per_connection" upc) sv.conns c }

/-- what happens to the wiring over a server's life -/
inductive WireOp where
  | connect
  | login (c u : Nat) (lim : UserLimits)
  deriving Repr

def ServerW.apply (sv : ServerW) : WireOp → ServerW
  | .connect => sv.connect
  | .login c u lim => sv.login c u lim

def ThrottleDict.get? (d : ThrottleDict) (k : String) : Option StreamThrottle :=
  (d.find? (fun e => e.1 == k)).map (·.2)

/-- the ids a stream (command or data) of connection `c` uses in direction `dir` -/
def ServerW.ids (sv : ServerW) (c : Nat) (dir : Dir) : List Nat :=
  (sv.conns[c]?.getD []).ids dir

/-- `Client.__init__` + `connect` + `get_stream`: one `StreamThrottle`, every stream gets `{"_": it}` -/
structure ClientW where
  store : Store
  throttle : StreamThrottle
  deriving Repr

def ClientW.init (r w : Option Int) : ClientW :=
  let (s, t) := StreamThrottle.fromLimits [] r w
  ⟨s, t⟩

def ClientW.streamDict (c : ClientW) : ThrottleDict := [("_", c.throttle)]

end Model.Throttling
