/-
  Date/time and numeric fields of listings, transcribed from
    server.py  `Server._format_mlsx_time`, `Server.build_list_mtime`, the numeric fields of
               `build_list_string` (`stat.filemode`, `str(st_size)`)
    client.py  `Client.parse_ls_date`, `Client.format_date_time`, `Client.parse_unix_mode`.

  Time inputs of the server functions are Python floats.  They are modelled as a numerator over a
  positive denominator `res` ("ticks per second"): `t = tt / res`.  Any two floats have a common
  denominator, so quantifying over `res` covers them; `time.gmtime`/`time.localtime` floor their
  argument to whole seconds, the comparison `now - HALF < st_mtime <= now` is exact on the ticks.
  `localtime` is `gmtime` shifted by a constant offset `off` (seconds east of UTC): no DST, no tz
  database — server and client are assumed to share that offset.
  The client's `now` is a naive local `datetime`: a `Civil` plus `us` microseconds.
  Core imports only.
-/
import AioftpModel.Py.Time
import AioftpModel.Generated.Server
import AioftpModel.Generated.Dates

namespace Model.ListDate
open Py Py.Time Model.Cal

/-! ### server -/

/-- `time.strftime("%Y%m%d%H%M%S", c)` -/
def fmtYmdHMS (c : Civil) : Str :=
  fmtY c.year ++ pad2 '0' c.month ++ pad2 '0' c.day ++ pad2 '0' c.hour ++ pad2 '0' c.minute ++ pad2 '0' c.second

/-- `Server._format_mlsx_time(local_seconds)` with `local_seconds = tt / res`; `none` = year < 1 -/
def formatMlsxTime (res : Nat) (tt : Int) : Option Str :=
  (gmtime (tt / res)).map fmtYmdHMS

/-- `"%b %e %H:%M"` -/
def fmtRecent (c : Civil) : Str :=
  monthAbbr c.month ++ (' ' :: (pad2 ' ' c.day ++ (' ' :: (pad2 '0' c.hour ++ (':' :: pad2 '0' c.minute)))))

/-- `"%b %e  %Y"` -/
def fmtOld (c : Civil) : Str :=
  monthAbbr c.month ++ (' ' :: (pad2 ' ' c.day ++ (' ' :: ' ' :: fmtY c.year)))

/-- the guard `now - HALF_OF_YEAR_IN_SECONDS < st_mtime <= now` -/
def isRecent (res : Nat) (mt nowt : Int) : Bool :=
  decide (nowt - (Generated.halfYearSeconds : Int) * res < mt) && decide (mt ≤ nowt)

/-- `Server.build_list_mtime(st_mtime, now)` -/
def buildListMtime (res : Nat) (off : Int) (mt nowt : Int) : Option Str :=
  (localtime off (mt / res)).map fun c => if isRecent res mt nowt then fmtRecent c else fmtOld c

/-- `stat.filemode(mode)` (`Lib/stat.py`, `_filemode_table`) -/
def fileMode (mode : Nat) : Str :=
  let t := mode / 4096 % 16          -- S_IFMT >> 12
  let bit (m : Nat) : Bool := mode / m % 2 == 1
  let ty : Char :=
    if t == 10 then 'l' else if t == 12 then 's' else if t == 8 then '-' else if t == 6 then 'b'
    else if t == 4 then 'd' else if t == 2 then 'c' else if t == 1 then 'p' else '?'
  let x (xm sm : Nat) (lo up : Char) : Char :=
    if bit xm && bit sm then lo else if bit sm then up else if bit xm then 'x' else '-'
  [ ty,
    (if bit 256 then 'r' else '-'), (if bit 128 then 'w' else '-'), x 64 2048 's' 'S',
    (if bit 32 then 'r' else '-'), (if bit 16 then 'w' else '-'), x 8 1024 's' 'S',
    (if bit 4 then 'r' else '-'), (if bit 2 then 'w' else '-'), x 1 512 't' 'T' ]

/-! ### client -/

/-- `Client.format_date_time(d)` = `d.strftime("%Y%m%d%H%M00")` -/
def formatDateTime (d : Civil) : Str :=
  fmtY d.year ++ pad2 '0' d.month ++ pad2 '0' d.day ++ pad2 '0' d.hour ++ pad2 '0' d.minute ++ ['0', '0']

/-- `while not calendar.isleap(y): y -= 1` (`calendar.isleap(0)` is true, so the loop stops there) -/
def prevLeap : Nat → Nat
  | 0 => 0
  | n + 1 => if isLeap (n + 1) then n + 1 else prevLeap n

/-- `(now - d).total_seconds() > lim` for `now = (nowc, us µs)`, `d` without microseconds -/
def diffGt (nowc : Civil) (us : Nat) (d : Civil) (lim : Nat) : Bool :=
  let x : Int := (toSeconds nowc : Int) - toSeconds d
  decide (x > lim) || (decide (x = lim) && decide (us > 0))

/-- `(now - d).total_seconds() < -lim` -/
def diffLt (nowc : Civil) (_us : Nat) (d : Civil) (lim : Nat) : Bool :=
  let x : Int := (toSeconds nowc : Int) - toSeconds d
  decide (x < -(lim : Int))

/-- the `try:` block of `parse_ls_date` -/
def parseLsDateTry (s : Str) (now : Civil) (us : Nat) : Except DateErr Civil :=
  if startsWith s ['F','e','b',' ','2','9'] then do
    let p := prevLeap now.year
    let d ← strptime_YbdHM (decStr p ++ ' ' :: s)
    if diffGt now us d Generated.twoYearsSeconds then replaceYear d (p + 4) else pure d
  else do
    let d ← strptime_bdHM s
    let d ← replaceYear d now.year
    if diffGt now us d Generated.halfYearSeconds then replaceYear d (now.year + 1)
    else if diffLt now us d Generated.halfYearSeconds then replaceYear d (now.year - 1)
    else pure d

/-- `Client.parse_ls_date(s, now=now)` -/
def parseLsDate (s : Str) (now : Civil) (us : Nat) : Except DateErr Str :=
  match parseLsDateTry s now us with
  | .ok d => .ok (formatDateTime d)
  | .error .valueError =>
    match strptime_bdY s with
    | .ok d => .ok (formatDateTime d)
    | .error e => .error e

/-- errors of `parse_unix_mode` -/
inductive ModeErr where
  | valueError | keyError | indexError
  deriving DecidableEq, Repr

/-- `parse_rw[s[i:i+2]]` -/
def parseRw (s : Str) : Except ModeErr Nat :=
  if s = ['r','w'] then .ok 6 else if s = ['r','-'] then .ok 4
  else if s = ['-','w'] then .ok 2 else if s = ['-','-'] then .ok 0 else .error .keyError

/-- one of the three `if s[i] == c: mode |= K … elif s[i] != "-": raise ValueError` chains, with the chain
    itself read off the source by the translator (`Generated.unixModeFlags`, `Generated.unixModeNeutral`) -/
def flagAt (s : Str) (i : Nat) : Except ModeErr Nat :=
  match s[i]? with
  | none => .error .indexError
  | some c =>
    match ((Generated.unixModeFlags.lookup i).getD []).lookup c with
    | some v => .ok v
    | none => if Generated.unixModeNeutral.contains c then .ok 0 else .error .valueError

/-- `Client.parse_unix_mode(s)`; the `|=` are on disjoint bits, so they are additions -/
def parseUnixMode (s : Str) : Except ModeErr Nat := do
  let a ← parseRw ((s.drop 0).take 2)
  let b ← parseRw ((s.drop 3).take 2)
  let c ← parseRw ((s.drop 6).take 2)
  let f1 ← flagAt s 2
  let f2 ← flagAt s 5
  let f3 ← flagAt s 8
  pure (a * 64 + b * 8 + c + f1 + f2 + f3)

/-! ### the 12-hour clock of `dir`-style (IIS) listings: `%I:%M %p` -/

/-- `%I` and `%p` as `strptime` combines them: 12 AM is hour 0, 12 PM is hour 12 -/
def hour24 (h12 : Nat) (pm : Bool) : Nat := h12 % 12 + (if pm then 12 else 0)

/-- how a `dir`-style listing writes hour `h` of the day: the `%I` field and whether the mark is PM -/
def clock12 (h : Nat) : Nat × Bool := (if h % 12 = 0 then 12 else h % 12, decide (12 ≤ h))

end Model.ListDate
