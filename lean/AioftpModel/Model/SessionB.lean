/-
  The sequential session model of `Session.lean` with the storage backend as a parameter.

  `Session.lean` is left untouched (the C03/C05 theorems are about it); the functions that touch the tree
  (`checkPathCond`, `runGuard(s)`, `worker`, `body`, `runVerb`, `dispatch`, `step0`, `step`) are repeated
  here with `w.fs.op …` replaced by `B.op w.fs …` and NOTHING else changed.
  `Lemmas/Backends.lean` proves `stepB Backend.mem = Session.step`, so the copy cannot drift.
-/
import AioftpModel.Model.Session
import AioftpModel.Model.Backend

namespace Model.SessionB
open Model Model.Session Model.Backends Py Generated

def checkPathCondB (B : Backend) (fs : Fs) (p : Path) : PathCond → Bool
  | .mustExist => B.exists_ fs p
  | .mustNotExist => !B.exists_ fs p
  | .mustBeDir => B.isDir fs p
  | .mustBeFile => B.isFile fs p

def runGuardB (B : Backend) (cfg : Cfg) (w : World) (s : SState) (arg : PPath) : Guard → GuardResult
  | .conn fields _wait code =>
    match fields.find? (fun f => !fieldSet s f) with
    | some _ => .fail code
    | none => .pass
  | .path conds =>
    match s.user with
    | none => .crash
    | some _ =>
      match conds.find? (fun c => !checkPathCondB B w.fs (resolve s arg) c) with
      | some _ => .fail 550
      | none => .pass
  | .perm perms =>
    match s.user.bind (cfg.users[·]?) with
    | none => .crash
    | some u =>
      match perms with
      | [] => .silent
      | p :: _ =>
        if permFlag (getPermissions u.perms ⟨1, resolve s arg⟩) p then .pass else .fail 550
  | .worker => .pass

def runGuardsB (B : Backend) (cfg : Cfg) (w : World) (s : SState) (arg : PPath) : List Guard → GuardResult
  | [] => .pass
  | g :: gs =>
    match runGuardB B cfg w s arg g with
    | .pass => runGuardsB B cfg w s arg gs
    | r => r

def workerBK (k : Nat) (B : Backend) (w : World) (s : SState) (target : Path) (v : Verb) (payload : Bytes) :
    World × SState × Out :=
  if !s.dataConn then
    (w, s, { replies := [425] })
  else
    let s' := { s with dataConn := false }
    match v with
    | .retr =>
      match B.openFile w.fs target 0 with
      | none => (w, s', { replies := [451] })
      | some (_, c, _) => (w, s', { replies := [226], data := c.drop k })
    | .stor | .appe =>
      let mode := if k ≠ 0 then 3 else (if v = .stor then 1 else 2)
      match B.openFile w.fs target mode with
      | none => (w, s', { replies := [451] })
      | some (fs', c, pos) =>
        let pos' := if k ≠ 0 then k else pos
        ({ w with fs := fs'.set target (.file (Fs.writeAt c pos' payload)) }, s', { replies := [226] })
    | .list => (w, s', { replies := [226], listing := some ((B.children w.fs target).map (fun p => p.getLast?.getD [])) })
    | .mlsd => (w, s', { replies := [200], listing := some ((B.children w.fs target).map (fun p => p.getLast?.getD [])) })
    | _ => (w, s', {})

def workerB (B : Backend) (w : World) (s : SState) (target : Path) (v : Verb) (payload : Bytes) :
    World × SState × Out :=
  workerBK (xferOffset v s) B w s target v payload

def bodyB (B : Backend) (cfg : Cfg) (w : World) (s : SState) (v : Verb) (rest : Str) (arg : PPath)
    (payload : Bytes) : World × SState × Out :=
  let target := resolve s arg
  match v with
  | .user =>
    let w1 := match s.user with
      | some i => { w with userFree := updUser w.userFree i release }
      | none => w
    let s1 := { s with user := none, logged := false,
                       renameFrom := if userDeletes.contains "rename_from" then none else s.renameFrom }
    let (code, u, lg) := getUser cfg w1 rest
    let w2 := match u with
      | some i => { w1 with userFree := updUser w1.userFree i acquire }
      | none => w1
    let s2 := { s1 with user := u, logged := lg, cwd := match u with
      | some i => ((cfg.users[i]?).map (·.home)).getD ⟨1, []⟩
      | none => s1.cwd }
    (w2, s2, { replies := [code] })
  | .pass =>
    if s.logged then (w, s, { replies := [503] })
    else match s.user.bind (cfg.users[·]?) with
      | none => (w, { s with alive := false }, { crashed := true })
      | some u =>
        if u.password == some rest then (w, { s with logged := true }, { replies := [230] })
        else (w, s, { replies := [530] })
  | .quit => (w, { s with alive := false }, { replies := [221] })
  | .pwd => (w, s, { replies := [257] })
  | .cwd | .cdup => (w, { s with cwd := ⟨1, target⟩ }, { replies := [250] })
  | .mkd =>
    match B.mkdirParents w.fs target with
    | some fs' => ({ w with fs := fs' }, s, { replies := [257] })
    | none => (w, s, { replies := [451] })
  | .rmd =>
    match B.rmdir w.fs target with
    | some fs' => ({ w with fs := fs' }, s, { replies := [250] })
    | none => (w, s, { replies := [451] })
  | .dele =>
    match B.unlink w.fs target with
    | some fs' => ({ w with fs := fs' }, s, { replies := [250] })
    | none => (w, s, { replies := [451] })
  | .mlst => (w, s, { replies := [250] })
  | .rnfr => (w, { s with renameFrom := some target }, { replies := [350] })
  | .rnto =>
    match s.renameFrom with
    | none => (w, { s with alive := false }, { crashed := true })
    | some src =>
      let (fs', ok) := B.rename w.fs src target
      ({ w with fs := fs' }, { s with renameFrom := none }, { replies := [if ok then 250 else 451] })
  | .list | .mlsd | .retr =>
    let (w', s', o) := workerB B w s target v payload
    (w', s', { o with replies := 150 :: o.replies })
  | .stor | .appe =>
    if B.isDir w.fs target.dropLast then
      let (w', s', o) := workerB B w s target v payload
      (w', s', { o with replies := 150 :: o.replies })
    else (w, s, { replies := [550] })
  | .type => (w, s, { replies := [if rest = ['I'] ∨ rest = ['A'] then 200 else 502] })
  | .pbsz => (w, s, { replies := [200] })
  | .prot => (w, s, { replies := [if rest = ['P'] then 200 else 502] })
  | .pasv =>
    if cfg.ipv6 then
      (w, { s with passive := true, alive := false }, { replies := [503] })
    else
      (w, { s with passive := true, dataConn := false }, { replies := [227], dataClosed := s.dataConn })
  | .epsv =>
    -- whether the 522 exit ends the session is read off the source (`return False` sites)
    if !rest.isEmpty then (w, { s with alive := !(Verb.epsv.closingCodes.contains 522) }, { replies := [522] })
    else (w, { s with passive := true, dataConn := false }, { replies := [229], dataClosed := s.dataConn })
  | .abor => (w, s, { replies := [226] })
  | .rest =>
    if restAccepts rest then
      match intOfDigits? rest with
      | some n => (w, { s with restartOffset := n }, { replies := [350] })
      | none => (w, { s with alive := false }, { crashed := true })
    else (w, { s with restartOffset := 0 }, { replies := [501] })
  | .syst => (w, s, { replies := [215] })

def runVerbB (B : Backend) (cfg : Cfg) (w : World) (s0 : SState) (v : Verb) (rest : Str) (payload : Bytes) :
    World × SState × Out :=
  match runGuardsB B cfg w s0 (argOf s0 v rest) v.guards with
  | .fail code => (w, s0, { replies := [code] })
  | .crash => (w, { s0 with alive := false }, { crashed := true })
  | .silent => (w, s0, {})
  | .pass => bodyB B cfg w s0 v rest (argOf s0 v rest) payload

def dispatchB (B : Backend) (cfg : Cfg) (w : World) (s : SState) (name rest : Str) (payload : Bytes) :
    World × SState × Out :=
  match verbOf name with
  | none => (w, resetRestart name s, { replies := [502] })
  | some v => runVerbB B cfg w (resetRestart name s) v rest payload

def step0B (B : Backend) (cfg : Cfg) (w : World) (s : SState) : Event → World × SState × Out
  | .connect =>
    if locked w.serverFree then (w, { s with alive := false }, { replies := [421] })
    else ({ w with serverFree := acquire w.serverFree }, { s with acquired := true }, { replies := [220] })
  | .dataConnect =>
    if s.passive && !s.dataConn then (w, { s with dataConn := true }, {}) else (w, s, {})
  | .finish => let (w', s') := finalize w s; (w', s', {})
  | .line raw payload => dispatchB B cfg w s (parseCommand raw).1 (parseCommand raw).2 payload

/-- one event on backend `B` -/
def stepB (B : Backend) (cfg : Cfg) (w : World) (s : SState) (ev : Event) : World × SState × Out :=
  let r := step0B B cfg w s ev
  if r.2.1.alive then r else ((finalize r.1 r.2.1).1, (finalize r.1 r.2.1).2, r.2.2)

/-- the verb, the session state the handler sees and the resolved tail of the real path of a command line -/
def targetOf (s : SState) : Event → Option (Verb × SState × Path)
  | .line raw _ =>
    match verbOf (parseCommand raw).1 with
    | none => none
    | some v =>
      let s0 := resetRestart (parseCommand raw).1 s
      some (v, s0, resolve s0 (argOf s0 v (parseCommand raw).2))
  | _ => none

end Model.SessionB
