/-
  ABOR against a running transfer worker.  `abor` cancels every task in `extra_workers`; what the client
  then sees depends on WHERE the worker is suspended relative to the `worker` decorator, i.e. on the order
  of the decorators of the nested `*_worker` — which the translator regenerates from the source
  (`Generated.Verb.workerGuards`, outermost first).
-/
import AioftpModel.Generated.Server

namespace Model
namespace Abort
open Generated

/-- where the (single) transfer worker of the session is when ABOR is handled -/
inductive Pos where
  | none          -- no worker: nothing sent, transfer refused, or transfer already completed
  | waitData      -- suspended in the `ConnectionConditions(data_connection_made, wait=True)` wrapper
  | inBody        -- suspended inside the wrapped function (between two blocks, in a backend call, …)
  | finishedUnreaped  -- the worker task has finished but the dispatcher has not yet removed it from
                      -- `extra_workers` (it does so only on its next wake-up)
  deriving DecidableEq, Repr

def isWaitGuard : Guard → Bool
  | .conn _ true _ => true
  | _ => false

/-- is the CancelledError raised at `pos` caught by a `worker` decorator?  It propagates outwards through
    the wrappers that enclose the suspension point: all of them for `inBody`, only those listed BEFORE the
    waiting `ConnectionConditions` for `waitData`. -/
def caught (guards : List Guard) : Pos → Bool
  | .none => false
  | .finishedUnreaped => false
  | .inBody => guards.contains .worker
  | .waitData => (guards.takeWhile (fun g => !isWaitGuard g)).contains .worker

structure Outcome where
  replies : List Nat
  alive : Bool
  deriving DecidableEq, Repr

/-- replies that follow ABOR and whether the session survives.
    Uncaught cancellation: the worker task ends cancelled, the dispatcher's `task.result()` re-raises
    CancelledError (`except asyncio.CancelledError: raise`) and the session is torn down with no reply. -/
def aborWith (countsFinished : Bool) (guards : List Guard) (pos : Pos) : Outcome :=
  match pos with
  | .none => ⟨[226], true⟩
  -- a truth test on `extra_workers` itself is true for a set holding a finished task: `cancel()` on it does
  -- nothing and the `else` branch with "226 nothing to abort" is not taken: no reply at all.  A test on the
  -- unfinished workers only (`Generated.aborCountsFinished = false`) answers 226.
  | .finishedUnreaped => if countsFinished then ⟨[], true⟩ else ⟨[226], true⟩
  | p => if caught guards p then ⟨[426, 226], true⟩ else ⟨[], false⟩

/-- ABOR as the source has it now (`aborCountsFinished` is read off `Server.abor` by the translator) -/
def abor (guards : List Guard) (pos : Pos) : Outcome := aborWith aborCountsFinished guards pos

def transferVerbs : List Verb := [.retr, .stor, .appe, .list, .mlsd]

/-- is a worker at `pos` an unfinished task (something `cancel()` acts on)? -/
def Pos.live : Pos → Bool
  | .waitData => true
  | .inBody => true
  | _ => false

/-- SEVERAL workers in one session (each transfer on a data connection of its own), one ABOR.  As the source has it
    (`aborCountsFinished = false` is decided only for the shape "collect the workers that are not done; if there
    are any, `cancel()` each of THAT collection, else 226"), every unfinished worker is cancelled and answers for
    itself; with none, the single 226. -/
def aborMany (guards : List Guard) (ps : List Pos) : Outcome :=
  let live := ps.filter Pos.live
  if live.isEmpty then
    (if aborCountsFinished && ps.any (· == .finishedUnreaped) then ⟨[], true⟩ else ⟨[226], true⟩)
  else ⟨live.flatMap (fun p => (abor guards p).replies), live.all (fun p => (abor guards p).alive)⟩

end Abort
end Model
