/-
  What the dispatcher does with the raw bytes of one control "line" (`parse_command`):
  `readline()` (asyncio limit 64 KiB, premature end of stream), strict decoding, then the command dispatch.
  A line that cannot be read or decoded raises in the `parse_command` task; the dispatcher's generic handler
  ends THAT session (`finally`), nothing else.
-/
import AioftpModel.Model.Counters
import AioftpModel.Py.Utf8

namespace Model
namespace Intake
open Py Model.Session Model.Counters

/-- `asyncio.StreamReader` default limit -/
def lineLimit : Nat := 65536

inductive Fate where
  | line (s : Str)     -- a complete, decodable line: dispatched
  | undecodable        -- UnicodeDecodeError (a ValueError) in `line.decode`
  | overlong           -- ValueError from `readline()` (LimitOverrunError)
  | eof                -- empty read: ConnectionResetError
  deriving Repr

/-- `raw` is what `readline()` is faced with next: bytes up to and including LF, or the rest of the stream -/
def classify (raw : Bytes) : Fate :=
  if raw.isEmpty then .eof
  else if raw.length > lineLimit then .overlong
  else match Utf8.decodeUtf8E raw with
    | .ok s => .line s
    | .error _ => .undecodable

/-- the system event a chunk of control bytes amounts to -/
def toEvent (sid : Nat) (raw : Bytes) : SysEvent :=
  match classify raw with
  | .line s => .line sid s []
  | _ => .finish sid

/-- environment inputs of the multi-session system at byte level -/
inductive Input where
  | connect
  | bytes (sid : Nat) (raw : Bytes)
  | dataConnect (sid : Nat)
  | vanish (sid : Nat)
  deriving Repr

def Input.toEvent : Input → SysEvent
  | .connect => .connect
  | .bytes sid raw => Intake.toEvent sid raw
  | .dataConnect sid => .dataConnect sid
  | .vanish sid => .finish sid

def runBytes (cfg : Cfg) (sys : Sys) (ins : List Input) : Sys := run cfg sys (ins.map Input.toEvent)

end Intake
end Model
