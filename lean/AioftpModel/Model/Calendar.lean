/-
  Proleptic Gregorian calendar, transcribed from CPython 3.12 `Lib/_pydatetime.py`
  (`_is_leap`, `_days_before_year`, `_days_in_month`, `_days_before_month`, `_ymd2ord`, `_ord2ymd`)
  which is the arithmetic behind `datetime.replace`, `datetime - datetime`, and — as a *specification* —
  behind `time.gmtime` / `time.localtime` for a fixed UTC offset (the C library routine is trusted to
  compute the same proleptic Gregorian date; the correspondence run samples this).

  All quantities are `Nat`: years are `≥ 1`, ordinals are 1-based (0001-01-01 has ordinal 1), seconds
  are counted from 0001-01-01T00:00:00.  Unix time `t : Int` corresponds to `t + epochSeconds`.
  Core imports only.
-/
namespace Model.Cal

/-- `calendar.isleap` / `_is_leap` -/
def isLeap (y : Nat) : Bool := y % 4 == 0 && (y % 100 != 0 || y % 400 == 0)

/-- `_days_before_year(year)`: days before January 1st of `year` -/
def daysBeforeYear (y : Nat) : Nat :=
  let y1 := y - 1
  y1 * 365 + y1 / 4 - y1 / 100 + y1 / 400

def yearLen (y : Nat) : Nat := if isLeap y then 366 else 365

/-- `_DAYS_IN_MONTH[month]` (index 0 is the `-1` placeholder; modelled as 0) -/
def daysInMonthTbl : Nat → Nat
  | 1 => 31 | 2 => 28 | 3 => 31 | 4 => 30 | 5 => 31 | 6 => 30
  | 7 => 31 | 8 => 31 | 9 => 30 | 10 => 31 | 11 => 30 | 12 => 31
  | _ => 0

/-- `_DAYS_BEFORE_MONTH[month]` -/
def daysBeforeMonthTbl : Nat → Nat
  | 1 => 0 | 2 => 31 | 3 => 59 | 4 => 90 | 5 => 120 | 6 => 151
  | 7 => 181 | 8 => 212 | 9 => 243 | 10 => 273 | 11 => 304 | 12 => 334
  | _ => 0

/-- `_days_in_month(year, month)` -/
def daysInMonth (y m : Nat) : Nat :=
  if m == 2 && isLeap y then 29 else daysInMonthTbl m

/-- `_days_before_month(year, month)` -/
def daysBeforeMonth (y m : Nat) : Nat :=
  daysBeforeMonthTbl m + (if m > 2 && isLeap y then 1 else 0)

/-- `_ymd2ord(year, month, day)` : 1-based proleptic Gregorian ordinal -/
def ymd2ord (y m d : Nat) : Nat := daysBeforeYear y + daysBeforeMonth y m + d

/-- the month/day part of `_ord2ymd`: `n` is the 0-based day of the year -/
def monthDayOfYearDay (leap : Bool) (n : Nat) : Nat × Nat :=
  let month := (n + 50) >>> 5
  let preceding := daysBeforeMonthTbl month + (if month > 2 && leap then 1 else 0)
  if preceding > n then
    let month := month - 1
    let preceding := preceding - (daysInMonthTbl month + (if month == 2 && leap then 1 else 0))
    (month, n - preceding + 1)
  else (month, n - preceding + 1)

/-- `_ord2ymd(n)` line by line (`_DI400Y = 146097`, `_DI100Y = 36524`, `_DI4Y = 1461`) -/
def ord2ymd (n : Nat) : Nat × Nat × Nat :=
  let n := n - 1
  let n400 := n / 146097; let n := n % 146097
  let year := n400 * 400 + 1
  let n100 := n / 36524; let n := n % 36524
  let n4 := n / 1461; let n := n % 1461
  let n1 := n / 365; let n := n % 365
  let year := year + n100 * 100 + n4 * 4 + n1
  if n1 == 4 || n100 == 4 then (year - 1, 12, 31)
  else
    let leapyear := n1 == 3 && (n4 != 24 || n100 == 3)
    let md := monthDayOfYearDay leapyear n
    (year, md.1, md.2)

/-- a broken-down time (`struct_time` / naive `datetime` without microseconds) -/
structure Civil where
  year : Nat
  month : Nat
  day : Nat
  hour : Nat
  minute : Nat
  second : Nat
  deriving DecidableEq, Repr, Inhabited

/-- what the `datetime` constructor accepts (apart from `MAXYEAR`, handled by the callers) -/
def Civil.Valid (c : Civil) : Prop :=
  1 ≤ c.year ∧ 1 ≤ c.month ∧ c.month ≤ 12 ∧ 1 ≤ c.day ∧ c.day ≤ daysInMonth c.year c.month ∧
  c.hour < 24 ∧ c.minute < 60 ∧ c.second < 60

instance (c : Civil) : Decidable c.Valid := by unfold Civil.Valid; exact inferInstance

/-- seconds since 0001-01-01T00:00:00 -/
def toSeconds (c : Civil) : Nat :=
  (ymd2ord c.year c.month c.day - 1) * 86400 + c.hour * 3600 + c.minute * 60 + c.second

/-- inverse: the broken-down time of a second count -/
def ofSeconds (t : Nat) : Civil :=
  let ymd := ord2ymd (t / 86400 + 1)
  let r := t % 86400
  { year := ymd.1, month := ymd.2.1, day := ymd.2.2,
    hour := r / 3600, minute := r % 3600 / 60, second := r % 60 }

/-- seconds between 0001-01-01 and 1970-01-01 (`719162 * 86400`) -/
def epochSeconds : Nat := 62135596800

/-- `time.gmtime(t)` for an integral `t`, specified for years ≥ 1 only.
    `none` = outside the modelled domain (the C library goes on to year 0 and below). -/
def gmtime (t : Int) : Option Civil :=
  if 0 ≤ t + epochSeconds then some (ofSeconds (t + epochSeconds).toNat) else none

/-- `time.localtime(t)` under the assumption of a fixed UTC offset `off` seconds east (no DST) -/
def localtime (off : Int) (t : Int) : Option Civil := gmtime (t + off)

/-- Unix time of a naive local broken-down time under the same fixed offset -/
def unixOfLocal (off : Int) (c : Civil) : Int := (toSeconds c : Int) - epochSeconds - off

end Model.Cal
