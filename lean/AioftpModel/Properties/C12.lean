/-
  C12  A session that ends — at any point, for any reason — releases everything it held.

  Full statement: for every reachable session state, the dispatcher's `finally` leaves nothing behind, and
  `Server.close()` completes leaving nothing behind.  On the pinned tree this was FALSE at three program
  points.  Two are repaired in /repo (F6: a864f95, F8: eb5160b) and `finalize_releases_all` now holds for EVERY
  state, resting on two facts the translator reads off the source (`stream_first`, `port_back`); the old
  shapes are kept as statements about `leftAfterFinallyWith false _` / `_ false`.  The third (F12, a connection
  accepted but not yet dispatched when `Server.close()` runs) is still open: `close_hangs_on_undispatched`,
  and `server_close_completes_partial` excludes exactly it.
-/
import AioftpModel.Model.Lifecycle

namespace C12
open Model Model.Lifecycle Generated

/-- the generated facts the proofs rest on: the file workers enter the stream first, and a cancelled listener
    start-up gives its port back -/
theorem stream_first : streamEnteredBeforeOpen = true := by decide
theorem port_back : cancelReturnsPort = true := by decide

/-- **finalize_releases_all** (full strength): from ANY session state — every listener phase, every worker
    program counter, parked data or not, logged in or not — the dispatcher's `finally` leaves an empty ledger
    (control, data, listener, port, files, tasks, slots, table entry). -/
theorem finalize_releases_all (s : Sess) : leftAfterFinally s = [] := by
  unfold leftAfterFinally leftAfterFinallyWith
  rw [stream_first, port_back]
  rcases s with ⟨d, c, l, p, w, a, u⟩
  cases l with
  | none => cases w with
    | none => rfl
    | some w' => rcases w' with ⟨pc⟩; cases pc <;> rfl
  | starting t => cases t <;> (cases w with
    | none => rfl
    | some w' => rcases w' with ⟨pc⟩; cases pc <;> rfl)
  | listening t => cases w with
    | none => rfl
    | some w' => rcases w' with ⟨pc⟩; cases pc <;> rfl

/-- every reachable state, by way of `run` -/
theorem finalize_releases_all_reachable (evs : List Ev) : leftAfterFinally (run evs) = [] :=
  finalize_releases_all _

/-- the crash points of the pinned tree are reachable (so the statement above is not vacuous there) and clean now -/
theorem crash_points_clean :
    let s := run [.dispatch, .login, .pasvStart false, .pasvReady, .dataConnect, .transfer true, .takeData]
    let t := run [.dispatch, .login, .pasvStart true]
    atCrashPoint s = true ∧ leftAfterFinally s = [] ∧ atCrashPoint t = true ∧ leftAfterFinally t = [] := by decide

/-- **old_order_leaks_inside_open** (what finding F6 was in this model): with the file item entered first, a
    session cut while the worker awaits the backend `open` keeps the data socket. -/
theorem old_order_leaks_inside_open (portBack : Bool) :
    let s := run [.dispatch, .login, .pasvStart false, .pasvReady, .dataConnect, .transfer true, .takeData]
    leftAfterFinallyWith false portBack s = [.workerData] := by cases portBack <;> decide

/-- **no_cancel_clause_loses_port** (what finding F8 was): without a clause for the cancellation, a session cut
    while its passive listener is being opened loses the pool port. -/
theorem no_cancel_clause_loses_port (streamFirst : Bool) :
    leftAfterFinallyWith streamFirst false (run [.dispatch, .login, .pasvStart true]) = [.poolPort] := by
  cases streamFirst <;> decide

/-- exactness: the ledger is empty for EVERY state iff both source facts hold -/
theorem clean_iff (a b : Bool) : (∀ s, leftAfterFinallyWith a b s = []) ↔ (a = true ∧ b = true) := by
  constructor
  · intro h
    have h1 := h (run [.dispatch, .login, .pasvStart false, .pasvReady, .dataConnect, .transfer true, .takeData])
    have h2 := h (run [.dispatch, .login, .pasvStart true])
    cases a <;> cases b <;> simp_all (config := {decide := true}) [leftAfterFinallyWith, run, step, undispatched]
  · rintro ⟨rfl, rfl⟩ s
    unfold leftAfterFinallyWith
    rcases s with ⟨d, c, l, p, w, a, u⟩
    cases l with
    | none => cases w with
      | none => rfl
      | some w' => rcases w' with ⟨pc⟩; cases pc <;> rfl
    | starting t => cases t <;> (cases w with
      | none => rfl
      | some w' => rcases w' with ⟨pc⟩; cases pc <;> rfl)
    | listening t => cases w with
      | none => rfl
      | some w' => rcases w' with ⟨pc⟩; cases pc <;> rfl

/-- **server_close_completes_partial**: if every session's dispatcher has started, `Server.close()`
    completes and leaves nothing (what is missing for the full statement: finding F12 below). -/
theorem server_close_completes_partial (ss : List Sess)
    (hd : ∀ s ∈ ss, s.dispatched = true) :
    serverClose ss = ([], true) := by
  unfold serverClose
  have h1 : ss.all (·.dispatched) = true := by simpa using hd
  have h2 : ss.flatMap (fun s => if s.dispatched then leftAfterFinally s else held s) = [] := by
    rw [List.flatMap_eq_nil_iff]
    intro s hs
    rw [if_pos (hd s hs)]
    exact finalize_releases_all s
  simp [h1, h2]

/-- **negative witness 3** (F12): a connection accepted whose dispatcher has not started yet is invisible
    to `Server.close()`: close does not complete and the session lives on. -/
theorem close_hangs_on_undispatched :
    (serverClose [undispatched]).2 = false ∧ (serverClose [undispatched]).1 ≠ [] := by decide

/-- a vanished peer is always cleaned up, dispatched or not, at every program point -/
theorem peer_vanish_clean (s : Sess) : peerVanish s = [] := by
  unfold peerVanish
  exact finalize_releases_all _

/-- stale data connections: PASV/EPSV again lets go of a parked data connection -/
theorem stale_data_replaced (s : Sess) : (step s .pasvAgain).parked = false := rfl

/-! ### non-vacuity: a reachable state holding everything at once -/
example :
    let s := run [.dispatch, .login, .pasvStart true, .pasvReady, .dataConnect, .transfer true,
                  .takeData, .openDone, .dataConnect]
    atCrashPoint s = false ∧
    held s = [.controlSocket, .listener, .poolPort, .parkedData, .task, .workerData, .file,
              .connEntry, .task, .serverSlot, .userSlot] ∧
    leftAfterFinally s = [] := by decide

end C12
