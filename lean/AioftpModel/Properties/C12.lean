/-
  C12  A session that ends — at any point, for any reason — releases everything it held.

  Full statement: for every reachable session state, the dispatcher's `finally` leaves nothing behind, and
  `Server.close()` completes leaving nothing behind.  On the pinned tree this was FALSE at three program
  points.  Two are repaired in /repo (F6: a864f95, F8: eb5160b) and `finalize_releases_all` now holds for EVERY
  state, resting on two facts the translator reads off the source (`stream_first`, `port_back`); the old
  shapes are kept as statements about `leftAfterFinallyWith false _` / `_ false`.  The third (F12, a connection
  accepted but not yet dispatched when `Server.close()` runs) was repaired in /repo: `server_close_completes` is
  full strength, `old_close_hangs_on_undispatched` keeps the witness.
-/
import AioftpModel.Model.Lifecycle
import AioftpModel.Lemmas.ReplyQueue
import AioftpModel.Lemmas.Waits

namespace C12
open Model Model.Lifecycle Generated

/-- the generated facts the proofs rest on: the file workers enter the stream first, and a cancelled listener
    start-up gives its port back -/
theorem stream_first : streamEnteredBeforeOpen = true := by decide
theorem port_back : cancelReturnsPort = true := by decide

/-- **finalize_releases_all** (full strength): from ANY session state — every listener phase, every worker
    program counter, parked data or not, logged in or not — the dispatcher's `finally` leaves an empty ledger
    (control, data, listener, port, files, tasks, slots, table entry). -/
theorem finalize_releases_all (s : Sess) : leftAfterFinally s = [] := by
  unfold leftAfterFinally leftAfterFinallyWith
  rw [stream_first, port_back]
  rcases s with ⟨d, c, l, p, w, a, u⟩
  cases l with
  | none => cases w with
    | none => rfl
    | some w' => rcases w' with ⟨pc⟩; cases pc <;> rfl
  | starting t => cases t <;> (cases w with
    | none => rfl
    | some w' => rcases w' with ⟨pc⟩; cases pc <;> rfl)
  | listening t => cases w with
    | none => rfl
    | some w' => rcases w' with ⟨pc⟩; cases pc <;> rfl

/-- every reachable state, by way of `run` -/
theorem finalize_releases_all_reachable (evs : List Ev) : leftAfterFinally (run evs) = [] :=
  finalize_releases_all _

/-- the crash points of the pinned tree are reachable (so the statement above is not vacuous there) and clean now -/
theorem crash_points_clean :
    let s := run [.dispatch, .login, .pasvStart false, .pasvReady, .dataConnect, .transfer true, .takeData]
    let t := run [.dispatch, .login, .pasvStart true]
    atCrashPoint s = true ∧ leftAfterFinally s = [] ∧ atCrashPoint t = true ∧ leftAfterFinally t = [] := by decide

/-- **old_order_leaks_inside_open** (what finding F6 was in this model): with the file item entered first, a
    session cut while the worker awaits the backend `open` keeps the data socket. -/
theorem old_order_leaks_inside_open (portBack : Bool) :
    let s := run [.dispatch, .login, .pasvStart false, .pasvReady, .dataConnect, .transfer true, .takeData]
    leftAfterFinallyWith false portBack s = [.workerData] := by cases portBack <;> decide

/-- **no_cancel_clause_loses_port** (what finding F8 was): without a clause for the cancellation, a session cut
    while its passive listener is being opened loses the pool port. -/
theorem no_cancel_clause_loses_port (streamFirst : Bool) :
    leftAfterFinallyWith streamFirst false (run [.dispatch, .login, .pasvStart true]) = [.poolPort] := by
  cases streamFirst <;> decide

/-- exactness: the ledger is empty for EVERY state iff both source facts hold -/
theorem clean_iff (a b : Bool) : (∀ s, leftAfterFinallyWith a b s = []) ↔ (a = true ∧ b = true) := by
  constructor
  · intro h
    have h1 := h (run [.dispatch, .login, .pasvStart false, .pasvReady, .dataConnect, .transfer true, .takeData])
    have h2 := h (run [.dispatch, .login, .pasvStart true])
    cases a <;> cases b <;> simp_all (config := {decide := true}) [leftAfterFinallyWith, run, step, undispatched]
  · rintro ⟨rfl, rfl⟩ s
    unfold leftAfterFinallyWith
    rcases s with ⟨d, c, l, p, w, a, u⟩
    cases l with
    | none => cases w with
      | none => rfl
      | some w' => rcases w' with ⟨pc⟩; cases pc <;> rfl
    | starting t => cases t <;> (cases w with
      | none => rfl
      | some w' => rcases w' with ⟨pc⟩; cases pc <;> rfl)
    | listening t => cases w with
      | none => rfl
      | some w' => rcases w' with ⟨pc⟩; cases pc <;> rfl

/-- obligation over the regenerated source: a dispatcher that starts when the server is no longer serving closes
    its connection and returns (F12 repaired) -/
theorem fact_dispatcher_refuses_when_not_serving : Generated.dispatcherRefusesWhenNotServing = true := by decide

/-- **server_close_completes** (full strength): whatever sessions exist - dispatched at any program point, or
    accepted with their dispatcher not yet started - `Server.close()` completes and leaves nothing. -/
theorem server_close_completes (ss : List Sess) : serverClose ss = ([], true) := by
  unfold serverClose
  rw [fact_dispatcher_refuses_when_not_serving]
  unfold serverCloseWith
  have h2 : ss.flatMap (fun s => if s.dispatched then leftAfterFinally s else if true = true then [] else held s) = [] := by
    rw [List.flatMap_eq_nil_iff]
    intro s _
    by_cases hd : s.dispatched = true
    · rw [if_pos hd]; exact finalize_releases_all s
    · rw [if_neg hd]; simp
  rw [h2]
  simp

/-- the part that held before the repair as well: if every session's dispatcher has started -/
theorem server_close_completes_dispatched (refuses : Bool) (ss : List Sess)
    (hd : ∀ s ∈ ss, s.dispatched = true) :
    serverCloseWith refuses ss = ([], true) := by
  unfold serverCloseWith
  have h1 : ss.all (·.dispatched) = true := by simpa using hd
  have h2 : ss.flatMap (fun s => if s.dispatched then leftAfterFinally s else if refuses = true then [] else held s) = [] := by
    rw [List.flatMap_eq_nil_iff]
    intro s hs
    rw [if_pos (hd s hs)]
    exact finalize_releases_all s
  simp [h1, h2]

/-- **old_close_hangs_on_undispatched** (F12, the defect that was repaired): without the guard a connection
    accepted whose dispatcher has not started yet is invisible to `Server.close()`: close does not complete and
    the session lives on. -/
theorem old_close_hangs_on_undispatched :
    (serverCloseWith false [undispatched]).2 = false ∧ (serverCloseWith false [undispatched]).1 ≠ [] := by decide

/-- non-vacuity: with the guard the same situation is clean -/
example : serverClose [undispatched, run [.dispatch, .login, .pasvStart true]] = ([], true) :=
  server_close_completes _

/-- a vanished peer is always cleaned up, dispatched or not, at every program point -/
theorem peer_vanish_clean (s : Sess) : peerVanish s = [] := by
  unfold peerVanish
  exact finalize_releases_all _

/-- stale data connections: PASV/EPSV again lets go of a parked data connection -/
theorem stale_data_replaced (s : Sess) : (step s .pasvAgain).parked = false := rfl

/-! ### non-vacuity: a reachable state holding everything at once -/
example :
    let s := run [.dispatch, .login, .pasvStart true, .pasvReady, .dataConnect, .transfer true,
                  .takeData, .openDone, .dataConnect]
    atCrashPoint s = false ∧
    held s = [.controlSocket, .listener, .poolPort, .parkedData, .task, .workerData, .file,
              .connEntry, .task, .serverSlot, .userSlot] ∧
    leftAfterFinally s = [] := by decide

/-! ### the session can always reach its `finally`: the reply queue (finding F17, repaired in /repo 351aa57)

A command that ends the session makes the dispatcher wait in `await response_queue.join()` and watch nothing
else.  `Model.ReplyQueue` is the queue with its writer task under an arbitrary scheduler of puts, takes, finished
and failed writes; the three facts about `response_writer` and `connection.response` are regenerated. -/

section replyQueue

/-- obligations over the regenerated source -/
theorem fact_reply_writer_finishes_in_finally : Generated.replyWriterFinishesInFinally = true := by decide
theorem fact_reply_writer_drains_on_failure : Generated.replyWriterDrainsOnFailure = true := by decide
theorem fact_reply_skips_dead_writer : Generated.replySkipsDeadWriter = true := by decide

/-- **join_cannot_hang** (every schedule of puts, takes, finished and failed writes): as the source is now,
    (1) the queue's count of unfinished items is always exactly what is still to be written, so a live writer that
    has written everything lets `join()` return, and (2) once the writer is gone - the peer vanished, a write timed
    out - the count is zero and stays zero: the dispatcher's `join()` returns and the `finally` block runs. -/
theorem join_cannot_hang (evs : List ReplyQueue.Ev) :
    ReplyQueue.Exact (ReplyQueue.run ReplyQueue.facts ReplyQueue.init evs) ∧
    ((ReplyQueue.run ReplyQueue.facts ReplyQueue.init evs).writerAlive = false → (ReplyQueue.run ReplyQueue.facts ReplyQueue.init evs).joinReturns) := by
  have hI := ReplyQueue.run_inv ReplyQueue.facts (by simp [ReplyQueue.facts, fact_reply_writer_finishes_in_finally])
    (by simp [ReplyQueue.facts, fact_reply_writer_drains_on_failure]) (by simp [ReplyQueue.facts, fact_reply_skips_dead_writer])
    ReplyQueue.init evs ReplyQueue.init_inv
  refine ⟨hI.exact, fun hd => ?_⟩
  have h1 := hI.exact
  obtain ⟨hq, hw⟩ := hI.dead hd
  unfold ReplyQueue.Exact at h1
  simp [ReplyQueue.St.joinReturns, h1, hq, hw]

/-- and whatever is queued later changes nothing: dead stays quiet (stated on its own because `join()` may be
    called at any later moment) -/
theorem dead_writer_stays_quiet (evs more : List ReplyQueue.Ev) (hd : (ReplyQueue.run ReplyQueue.facts ReplyQueue.init evs).writerAlive = false) :
    (ReplyQueue.run ReplyQueue.facts ReplyQueue.init (evs ++ more)).joinReturns := by
  have hdead : ∀ (s : ReplyQueue.St) (l : List ReplyQueue.Ev), s.writerAlive = false → (ReplyQueue.run ReplyQueue.facts s l).writerAlive = false := by
    intro s l
    induction l generalizing s with
    | nil => exact id
    | cons e t ih =>
      intro h
      simp only [ReplyQueue.run, List.foldl_cons] at ih ⊢
      apply ih
      cases e <;> simp [ReplyQueue.step, h] <;> (try split) <;> simp_all
  have := hdead _ more hd
  have hrun : ReplyQueue.run ReplyQueue.facts ReplyQueue.init (evs ++ more) = ReplyQueue.run ReplyQueue.facts (ReplyQueue.run ReplyQueue.facts ReplyQueue.init evs) more := by simp [ReplyQueue.run, List.foldl_append]
  rw [← hrun] at this
  exact (join_cannot_hang (evs ++ more)).2 this

/-- **old_join_hangs** (the defect, F17): on the pinned shape two replies are queued (EPSV's 229 and QUIT's 221),
    the write of the first fails because the peer has reset the connection, and the second is never finished:
    `join()` waits for ever -/
theorem old_join_hangs :
    ReplyQueue.run ReplyQueue.oldFacts ReplyQueue.init [.put, .put, .take, .writeFail] =
      { queued := 1, inWrite := false, unfinished := 1, writerAlive := false } ∧
    -- and a reply queued AFTER the writer's death is enough as well
    (ReplyQueue.run ReplyQueue.oldFacts ReplyQueue.init [.put, .take, .writeFail, .put]).unfinished = 1 ∧
    -- neither half of the repair is enough alone
    (ReplyQueue.run { finishes := true, drains := true, skips := false } ReplyQueue.init [.put, .take, .writeFail, .put]).unfinished = 1 ∧
    (ReplyQueue.run { finishes := true, drains := false, skips := true } ReplyQueue.init [.put, .put, .take, .writeFail]).unfinished = 1 ∧
    (ReplyQueue.run { finishes := false, drains := true, skips := true } ReplyQueue.init [.put, .take, .writeFail]).unfinished = 1 := by
  decide

/-- non-vacuity: a reachable state with a dead writer and replies that had been queued -/
example : (ReplyQueue.run ReplyQueue.facts ReplyQueue.init [.put, .put, .put, .take, .writeOk, .take, .writeFail, .put]).writerAlive = false ∧
    (ReplyQueue.run ReplyQueue.facts ReplyQueue.init [.put, .put, .put, .take, .writeOk, .take, .writeFail, .put]).unfinished = 0 := by decide

end replyQueue

/-! ### the throttle's waits do not outlive their caller (finding F21, repaired in /repo 31a4e2a) -/

/-- **fact_throttle_wait_cancels_its_waits**: as regenerated from `common.py`, `ThrottleStreamIO.wait` starts a wait
    for every limited throttle, awaits them all, and cancels them in a `finally` clause -/
theorem fact_throttle_wait_cancels_its_waits :
    Generated.throttleWaitOnEveryLimited = true ∧ Generated.throttleWaitCancelsItsWaits = true := by decide

open Model.Waits in
/-- **no_wait_outlives_its_caller**: under EVERY schedule of sleeps ending, cancellations of the caller and resumptions,
    for any number of waits: once the caller has left `wait()` - because all were over or because it was cancelled
    (ABOR, the session ending, `Server.close()`) - none of its waits is still asleep -/
theorem no_wait_outlives_its_caller (n : Nat) (evs : List Model.Waits.Ev) (h : (runNow n evs).left = true) :
    ∀ b ∈ (runNow n evs).pending, b = false := by
  unfold runNow at h ⊢
  rw [fact_throttle_wait_cancels_its_waits.2] at h ⊢
  exact run_inv evs (init n) (init_inv n) h

open Model.Waits in
/-- the premise is met: two waits, one ends, the caller is cancelled and leaves -/
example : (runNow 2 [.finish 0, .cancel, .resume]).left = true ∧ (runNow 2 [.finish 0, .cancel, .resume]).pending = [false, false] := by
  decide

open Model.Waits in
/-- **old_wait_outlived_close** (what F21 was): without the `finally` clause a cancelled caller leaves its waits asleep -/
theorem old_wait_outlived_close :
    (run false (init 2) [.finish 0, .cancel, .resume]).left = true ∧ (run false (init 2) [.finish 0, .cancel, .resume]).pending = [false, true] := by
  decide

end C12
