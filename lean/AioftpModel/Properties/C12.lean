/-
  C12  A session that ends — at any point, for any reason — releases everything it held.

  Full statement: for every reachable session state, the dispatcher's `finally` leaves nothing behind, and
  `Server.close()` completes leaving nothing behind.  On the pinned tree this is FALSE at three program
  points (negative witnesses below, replayed against the real code by harness/props/c12.py); the
  `_partial` theorems exclude exactly those points.
-/
import AioftpModel.Model.Lifecycle

namespace C12
open Model Model.Lifecycle Generated

/-- the generated fact the proofs case-split on -/
theorem cancelled_not_oserror : cancelledIsOSError = false := by decide

/-- **finalize_releases_all_partial**: from ANY state that is not at one of the two crash points, the
    `finally` block leaves an empty ledger (control, data, listener, port, files, tasks, slots, table entry). -/
theorem finalize_releases_all_partial (s : Sess) (h : atCrashPoint s = false) :
    leftAfterFinally s = [] := by
  unfold atCrashPoint at h
  simp only [Bool.or_eq_false_iff, beq_eq_false_iff_ne] at h
  unfold leftAfterFinally
  rcases s with ⟨d, c, l, p, w, a, u⟩
  simp only at h
  cases l with
  | none => cases w with
    | none => rfl
    | some w' => rcases w' with ⟨pc⟩; cases pc <;> simp_all
  | starting t => cases t with
    | true => simp at h
    | false => cases w with
      | none => rfl
      | some w' => rcases w' with ⟨pc⟩; cases pc <;> simp_all
  | listening t => cases w with
    | none => rfl
    | some w' => rcases w' with ⟨pc⟩; cases pc <;> simp_all

/-- every reachable state: same statement by way of `run` (non-crash-point end states) -/
theorem finalize_releases_all_reachable (evs : List Ev) (h : atCrashPoint (run evs) = false) :
    leftAfterFinally (run evs) = [] :=
  finalize_releases_all_partial _ h

/-- **negative witness 1** (F6 family): a session cut while the transfer worker awaits the backend `open`
    keeps the data socket the worker had taken out of the session. -/
theorem leak_inside_open :
    let s := run [.dispatch, .login, .pasvStart false, .pasvReady, .dataConnect, .transfer true, .takeData]
    atCrashPoint s = true ∧ leftAfterFinally s = [.workerData] := by decide

/-- **negative witness 2** (F8): a session cut while its passive listener is being opened loses the pool port. -/
theorem port_lost_inside_startup :
    let s := run [.dispatch, .login, .pasvStart true]
    atCrashPoint s = true ∧ leftAfterFinally s = [.poolPort] := by decide

/-- without a port pool the same cut loses nothing -/
theorem startup_cut_without_pool_is_clean :
    leftAfterFinally (run [.dispatch, .login, .pasvStart false]) = [] := by decide

/-- **server_close_completes_partial**: if every session's dispatcher has started and none is at a crash
    point, `Server.close()` completes and leaves nothing. -/
theorem server_close_completes_partial (ss : List Sess)
    (hd : ∀ s ∈ ss, s.dispatched = true) (hc : ∀ s ∈ ss, atCrashPoint s = false) :
    serverClose ss = ([], true) := by
  unfold serverClose
  have h1 : ss.all (·.dispatched) = true := by simpa using hd
  have h2 : ss.flatMap (fun s => if s.dispatched then leftAfterFinally s else held s) = [] := by
    rw [List.flatMap_eq_nil_iff]
    intro s hs
    rw [if_pos (hd s hs)]
    exact finalize_releases_all_partial s (hc s hs)
  simp [h1, h2]

/-- **negative witness 3** (F12): a connection accepted whose dispatcher has not started yet is invisible
    to `Server.close()`: close does not complete and the session lives on. -/
theorem close_hangs_on_undispatched :
    (serverClose [undispatched]).2 = false ∧ (serverClose [undispatched]).1 ≠ [] := by decide

/-- a vanished peer is always cleaned up outside the two crash points, dispatched or not -/
theorem peer_vanish_clean (s : Sess) (h : atCrashPoint s = false) : peerVanish s = [] := by
  unfold peerVanish
  apply finalize_releases_all_partial
  unfold atCrashPoint at h ⊢
  simpa using h

/-- stale data connections: PASV/EPSV again lets go of a parked data connection -/
theorem stale_data_replaced (s : Sess) : (step s .pasvAgain).parked = false := rfl

/-! ### non-vacuity: a reachable state holding everything at once -/
example :
    let s := run [.dispatch, .login, .pasvStart true, .pasvReady, .dataConnect, .transfer true,
                  .takeData, .openDone, .dataConnect]
    atCrashPoint s = false ∧
    held s = [.controlSocket, .listener, .poolPort, .parkedData, .task, .workerData, .file,
              .connEntry, .task, .serverSlot, .userSlot] ∧
    leftAfterFinally s = [] := by decide

end C12
