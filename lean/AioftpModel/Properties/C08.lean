/-
  C08  File and directory names mean the same thing in every command and reply.

  Every theorem is for ALL valid names (any length, any Unicode scalar values):
  `ValidName n` = not empty, not `.`/`..`, no `/`, NUL, CR, LF, no trailing Python whitespace.
  Where the pinned code violates the property the negation is proved on a concrete witness and the
  strongest partial theorem is kept (`list_name_roundtrip_partial`); `pwd_roundtrip` is full strength since F4 was repaired.
-/
import AioftpModel.Lemmas.Names
import AioftpModel.Lemmas.ListingErr
import AioftpModel.Properties.C02
import AioftpModel.Generated.Server

namespace C08
open Model Model.Names Model.ListingParse Py Py.StrErr Py.Utf8

/-! ### the generated command-construction table is what the model assumes (re-checked by the kernel
    against client.py on every run) -/

/-- every `"<VERB> " + str(path)` site has the shape "non-empty verb without blanks, one blank" -/
theorem generated_sites_ok : ∀ site ∈ Generated.clientPathCmdSites, SiteOK site.2.1 := by decide

/-- …and its verb, lower-cased, is a key of the server's `commands_mapping` -/
theorem generated_sites_are_server_verbs :
    ∀ site ∈ Generated.clientPathCmdSites,
      String.ofList (lower site.2.1.dropLast) ∈ Generated.Verb.all.map Generated.Verb.name := by decide

/-- the `change_directory` special case compares with `PurePosixPath("..")` and sends `CDUP` -/
theorem generated_cdup : Generated.clientCdupLiteral = dotdot ∧ Generated.clientCdupCommand = "CDUP".toList := by
  decide

/-- the listing chain catches exactly {ValueError, KeyError, IndexError} (as a set), parsers unix then windows -/
theorem generated_chain :
    (∀ c ∈ Generated.listChainCaught, c ∈ ["ValueError", "KeyError", "IndexError"]) ∧
    (∀ c ∈ ["ValueError", "KeyError", "IndexError"], c ∈ Generated.listChainCaught) ∧
    Generated.listChainParsers = ["parse_list_line_unix", "parse_list_line_windows"] := by decide

/-! ### commands -/

/-- **cmd_roundtrip.**  For every command-construction site of client.py, both argument forms
    (`str` or `PurePosixPath`), and every valid name: the server's `parse_command` reads the verb and
    exactly the name from the line the client writes, and `get_paths` resolves it to cwd/n below the base. -/
theorem cmd_roundtrip (site : String × List Char × Bool) (hs : site ∈ Generated.clientPathCmdSites)
    (typed : Bool) (base cwd : PPath) (hc : C02.AbsNormal cwd) (n : Str) (hn : ValidName n) :
    srvParseCommand (wireLine (clientCmd site.2.1 site.2.2 (clientArg typed n)))
        = (lower site.2.1.dropLast, n) ∧
    getPaths base cwd (srvParseCommand (wireLine (clientCmd site.2.1 site.2.2 (clientArg typed n)))).2
        = (⟨base.root, base.parts ++ (cwd.parts ++ [n])⟩, ⟨1, cwd.parts ++ [n]⟩) := by
  have h1 := cmd_parse site.2.1 site.2.2 (clientArg typed n) (generated_sites_ok site hs)
    (by rw [clientArg_name typed hn]; exact hn.ne_nil) (by rw [clientArg_name typed hn]; exact hn.lastOK)
  rw [clientArg_name typed hn] at h1 ⊢
  refine ⟨h1, ?_⟩
  rw [h1]
  exact getPaths_name base cwd n hc.1 hc.2 hn.good

/-- the same for a relative path p₁/…/pₖ of valid names at any depth -/
theorem cmd_roundtrip_path (site : String × List Char × Bool) (hs : site ∈ Generated.clientPathCmdSites)
    (typed : Bool) (base cwd : PPath) (hc : C02.AbsNormal cwd) (ps : List Str) (hne : ps ≠ [])
    (hps : ∀ p ∈ ps, ValidName p) :
    srvParseCommand (wireLine (clientCmd site.2.1 site.2.2 (clientArg typed (joinWith '/' ps))))
        = (lower site.2.1.dropLast, joinWith '/' ps) ∧
    getPaths base cwd (joinWith '/' ps)
        = (⟨base.root, base.parts ++ (cwd.parts ++ ps)⟩, ⟨1, cwd.parts ++ ps⟩) := by
  have hne' : joinWith '/' ps ≠ [] := joinWith_ne_nil '/' ps hne (fun p hp => (hps p hp).ne_nil)
  have h1 := cmd_parse site.2.1 site.2.2 (clientArg typed (joinWith '/' ps)) (generated_sites_ok site hs)
    (by rw [clientArg_relpath typed ps hne hps]; exact hne')
    (by rw [clientArg_relpath typed ps hne hps]; exact relpath_lastOK ps hne hps)
  rw [clientArg_relpath typed ps hne hps] at h1 ⊢
  exact ⟨h1, getPaths_relpath base cwd ps hc.1 hc.2 hne (fun p hp => (hps p hp).good)⟩

/-- `change_directory(n)` sends `CWD n` (never the `CDUP` special case) for a valid name -/
theorem change_directory_cmd (n : Str) (hn : ValidName n) :
    changeDirectoryCmd n = "CWD ".toList ++ n := by
  unfold changeDirectoryCmd
  have hlit : PPath.parse Generated.clientCdupLiteral = ⟨0, [dotdot]⟩ := by decide
  have hsite : cwdSite.1 = "CWD ".toList ∧ SiteOK cwdSite.1 := by decide
  simp only [parse_name hn, hlit]
  rw [if_neg]
  · have hstr : PPath.str ⟨0, [n]⟩ = n := by simp [PPath.str, rootStr, joinWith]
    rw [hstr, clientCmd_eq _ _ n hsite.2 hn.ne_nil hn.lastOK, hsite.1]
    rfl
  · intro h
    have : n = dotdot := by simpa using h
    exact hn.2.2.1 this

/-- `change_directory("..")` (the default argument) is the only spelling that becomes `CDUP` -/
example : changeDirectoryCmd dotdot = "CDUP".toList := by decide
example : changeDirectoryCmd "../".toList = "CDUP".toList := by decide

/-- **rename_both_sides.**  `rename(a, b)` reaches the backend as rename(base/cwd/a, base/cwd/b) -/
theorem rename_both_sides (base cwd : PPath) (hc : C02.AbsNormal cwd) (a b : Str)
    (ha : ValidName a) (hb : ValidName b) :
    (getPaths base cwd (srvParseCommand (wireLine (clientCmd "RNFR ".toList false a))).2).1
        = ⟨base.root, base.parts ++ (cwd.parts ++ [a])⟩ ∧
    (getPaths base cwd (srvParseCommand (wireLine (clientCmd "RNTO ".toList false b))).2).1
        = ⟨base.root, base.parts ++ (cwd.parts ++ [b])⟩ := by
  have h1 := cmd_roundtrip ("rename", "RNFR ".toList, false) (by decide) false base cwd hc a ha
  have h2 := cmd_roundtrip ("rename", "RNTO ".toList, false) (by decide) false base cwd hc b hb
  rw [show clientArg false a = a from rfl] at h1
  rw [show clientArg false b = b from rfl] at h2
  exact ⟨by rw [h1.2], by rw [h2.2]⟩

/-! ### PWD -/

/-- **pwd_roundtrip** (full strength).  For EVERY normal absolute cwd — names with double quotes, runs of
    quotes, trailing quotes included — the client reads back exactly the cwd the server formatted (through the
    quote doubling of `Server.pwd`, reply framing, `parse_line` and the quote automaton of
    `parse_directory_response`).  Finding F4 (quotes not doubled by the server, quote runs mis-counted by the
    client) is repaired in /repo 624c00e; whether the server doubles is read off the source. -/
theorem pwd_roundtrip (cwd : PPath) (hc : C02.AbsNormal cwd) : pwdSeenByClient cwd = cwd := by
  obtain ⟨r, ps⟩ := cwd
  have hr : r = 1 := hc.1
  subst hr
  exact pwd_roundtrip_all ps (fun p hp => (hc.2 p hp).partOK)

/-- in the property's words: below any normal cwd, any valid name comes back -/
theorem pwd_roundtrip_name (cwd : PPath) (hc : C02.AbsNormal cwd) (n : Str) (hn : ValidName n) :
    pwdSeenByClient ⟨1, cwd.parts ++ [n]⟩ = ⟨1, cwd.parts ++ [n]⟩ := by
  apply pwd_roundtrip
  refine ⟨rfl, ?_⟩
  intro x hx
  rcases List.mem_append.mp hx with h | h
  · exact hc.2 x h
  · simp at h; subst h; exact hn.good

/-- the shapes of finding F4 on the tree as it is now -/
theorem pwd_quote_shapes_ok : ValidName "a\"b".toList ∧ ValidName "\"".toList ∧
    pwdSeenByClient ⟨1, ["a\"b".toList]⟩ = ⟨1, ["a\"b".toList]⟩ ∧
    pwdSeenByClient ⟨1, ["x".toList, "\"".toList]⟩ = ⟨1, ["x".toList, "\"".toList]⟩ ∧
    pwdSeenByClient ⟨1, ["a\"\"b".toList]⟩ = ⟨1, ["a\"\"b".toList]⟩ ∧
    parseDirectoryResponse " \"/a\"\"\"".toList = ⟨1, ["a\"".toList]⟩ := by decide

/-- **old_pwd_lost_quotes** (what F4's server half was): without the doubling, `/a"b` between quotes is read
    back as `/a` even by the repaired client -/
theorem old_pwd_lost_quotes :
    parseDirectoryResponse (replyRest ['2', '5', '7'] (['"'] ++ PPath.str ⟨1, ["a\"b".toList]⟩ ++ ['"']))
      = ⟨1, ["a".toList]⟩ := by decide

/-- an inner doubled quote is decoded, text after the closing quote is ignored: `"/a""b" created` ↦ `/a"b` -/
example : parseDirectoryResponse " \"/a\"\"b\" created".toList = ⟨1, ["a\"b".toList]⟩ := by decide

/-! ### MLSD / MLST -/

/-- **mlsx_name_roundtrip.**  Whatever facts precede it (keys without ` `,`;`,`=`; values without ` `,`;`),
    the name — leading blanks, `;`, `=`, `Type=dir;` and all — comes back from the MLSD line
    `build_mlsx_string … + "\r\n"`, and the facts come back with lower-cased keys. -/
theorem mlsx_name_roundtrip (facts : List (Str × Str)) (hne : facts ≠ []) (hf : FactsOK facts)
    (hnd : (facts.map (fun kv => lower kv.1)).Nodup) (n : Str) (hn : ValidName n) :
    parseMlsxLine (buildMlsxString facts n ++ END_OF_LINE) =
      (⟨0, [n]⟩, facts.map (fun kv => (lower kv.1, kv.2))) := by
  rw [parseMlsxLine_build facts n END_OF_LINE eol_ws hf hn, parseMlsx_entry facts hne hf hnd]

/-- the name alone needs nothing of the facts but "no blank inside" (also for an empty fact list) -/
theorem mlsx_name_only (facts : List (Str × Str)) (hf : FactsOK facts) (n : Str) (hn : ValidName n) :
    (parseMlsxLine (buildMlsxString facts n ++ END_OF_LINE)).1 = ⟨0, [n]⟩ := by
  rw [parseMlsxLine_build facts n END_OF_LINE eol_ws hf hn]

/-- **MLST**: the `250-start / <space>line / 250 end` framing, `parse_line`'s `rstrip` and `Client.stat`'s
    `lstrip()` give the server's string back unchanged, so `stat` sees the same name and facts.
    Needs a first fact whose key does not start with whitespace (the server always has `Type` or `Size`). -/
theorem mlst_name_roundtrip (facts : List (Str × Str)) (hne : facts ≠ []) (hf : FactsOK facts)
    (hnd : (facts.map (fun kv => lower kv.1)).Nodup)
    (hfirst : startsWithPySpace (buildMlsxString facts []) = false)
    (n : Str) (hn : ValidName n) :
    parseMlsxLine (mlstInfoLine (buildMlsxString facts n)) =
      (⟨0, [n]⟩, facts.map (fun kv => (lower kv.1, kv.2))) := by
  have hs : startsWithPySpace (buildMlsxString facts n) = false := by
    rw [buildMlsxString_eq] at hfirst ⊢
    cases hfl : facts.flatMap factEnc with
    | nil =>
      rw [hfl] at hfirst; simp [startsWithPySpace] at hfirst
      exact absurd hfirst (by decide)
    | cons c t => rw [hfl] at hfirst; simpa [startsWithPySpace] using hfirst
  have hne' : buildMlsxString facts n ≠ [] := by rw [buildMlsxString_eq]; simp
  rw [mlstInfoLine_id _ hs (build_lastOK facts hn) hne']
  have := parseMlsxLine_build facts n [] (by simp) hf hn
  rw [List.append_nil] at this
  rw [this, parseMlsx_entry facts hne hf hnd]

/-! ### LIST fallback -/

/-- **list_name_roundtrip_partial.**  For every valid name *without leading whitespace*, every mode
    string `c :: perms` the unix-mode parser accepts (`c ≠ 'l'`), every link count, size and 12-character
    date column that does not start with whitespace: `parse_list_line_unix` of `build_list_string`
    recovers the name, the type and the size (and the other fields) exactly. -/
theorem list_name_roundtrip_partial (lsDate : Str → Except PyErr Str) (c0 : Char) (perms : Str)
    (m nlink size : Nat) (mtime d n : Str)
    (hp : perms.length = 9) (hm : parseUnixMode perms = .ok m) (hc0 : c0 ≠ 'l')
    (hmt : mtime.length = 12) (hms : startsWithPySpace mtime = false)
    (hd : lsDate (strip mtime) = .ok d)
    (hn : ValidName n) (hns : startsWithPySpace n = false) :
    parseListLineUnixStr lsDate (buildListString (c0 :: perms) nlink size mtime n ++ END_OF_LINE) =
      .ok (⟨0, [n]⟩,
        [("type".toList, typeOfChar c0), ("unix.mode".toList, natToStr m),
         ("unix.links".toList, natToStr nlink), ("unix.owner".toList, "none".toList),
         ("unix.group".toList, "none".toList), ("size".toList, natToStr size),
         ("modify".toList, d)]) :=
  parseListLineUnixStr_build lsDate c0 perms m nlink size mtime d n END_OF_LINE hp hm hc0 hmt hms hd hn hns eol_ws

/-- the two modes MemoryPathIO emits, and every `rwx` permission triple of a file or directory, parse -/
theorem filemode_regular_parses :
    ∀ perm ∈ List.range 512, ∀ ft ∈ [0o100000, 0o040000],
      (parseUnixMode ((filemode (ft ||| perm)).drop 1)).toBool = true ∧
        (filemode (ft ||| perm)).length = 10 := by decide +kernel

/-- **list_name_roundtrip is FALSE on the pinned tree** (finding F9): `.strip()` after the date column
    eats leading whitespace of the name — a file called `" x"` is listed as `"x"`. -/
theorem list_leading_space_lost :
    ValidName " x".toList ∧
    parseListLineUnixStr (fun _ => .ok "D".toList)
        (buildListString (filemode 0o100644) 1 3 "Jan  1 00:00".toList " x".toList ++ END_OF_LINE)
      = .ok (⟨0, ["x".toList]⟩,
          [("type".toList, "file".toList), ("unix.mode".toList, "420".toList),
           ("unix.links".toList, "1".toList), ("unix.owner".toList, "none".toList),
           ("unix.group".toList, "none".toList), ("size".toList, "3".toList),
           ("modify".toList, "D".toList)]) := by decide

/-- the same with a non-ASCII Python-whitespace character (U+00A0) in front -/
theorem list_leading_nbsp_lost :
    ValidName [Char.ofNat 0xA0, 'x'] ∧
    (parseListLineUnixStr (fun _ => .ok "D".toList)
        (buildListString (filemode 0o040755) 1 0 "Jan  1  1970".toList [Char.ofNat 0xA0, 'x'] ++ END_OF_LINE)).map
        (fun e => e.1) = .ok ⟨0, ["x".toList]⟩ := by decide

/-! ### composition -/

/-- **composition (client → server).**  Every path-taking client method — every generated site, `str`
    or `PurePosixPath` argument — reaches the backend with exactly base/cwd/n and the virtual path cwd/n. -/
theorem composition (base cwd : PPath) (hc : C02.AbsNormal cwd) (n : Str) (hn : ValidName n) :
    ∀ site ∈ Generated.clientPathCmdSites, ∀ typed : Bool,
      let (verb, rest) := srvParseCommand (wireLine (clientCmd site.2.1 site.2.2 (clientArg typed n)))
      String.ofList verb ∈ Generated.Verb.all.map Generated.Verb.name ∧
      getPaths base cwd rest = (⟨base.root, base.parts ++ (cwd.parts ++ [n])⟩, ⟨1, cwd.parts ++ [n]⟩) := by
  intro site hs typed
  obtain ⟨h1, h2⟩ := cmd_roundtrip site hs typed base cwd hc n hn
  rw [h1] at h2 ⊢
  exact ⟨generated_sites_are_server_verbs site hs, h2⟩

/-- **composition (server → client), MLSD.**  A directory entry named `n` is yielded by `Client.list`
    as `path / n` with the server's facts — for every valid name. -/
theorem composition_mlsd (facts : List (Str × Str)) (hne : facts ≠ []) (hf : FactsOK facts)
    (hnd : (facts.map (fun kv => lower kv.1)).Nodup)
    (path : PPath) (n : Str) (hn : ValidName n) :
    listStep (fun s => .ok (parseMlsxLine s)) path (buildMlsxString facts n ++ END_OF_LINE) =
      .ok (some (⟨path.root, path.parts ++ [n]⟩, facts.map (fun kv => (lower kv.1, kv.2)))) := by
  have hfact : Generated.listTypeLookupRaises = false := by decide
  have hstr : PPath.str ⟨0, [n]⟩ = n := by simp [PPath.str, rootStr, joinWith]
  unfold listStep
  rw [hfact]
  refine (listStepWith_false_entry _ path _ ⟨0, [n]⟩ _ (by rw [mlsx_name_roundtrip facts hne hf hnd n hn]) ?_).trans ?_
  · rw [hstr]; intro h; rcases h with h | h; exact hn.2.1 h; exact hn.2.2.1 h
  · simp [PPath.join]

/-- **composition (server → client), LIST fallback.**  For a name without leading whitespace the entry is
    yielded as `path / n` with the server's type and size (partial: see `list_leading_space_lost`). -/
theorem composition_list (lsDate : Str → Except PyErr Str) (c0 : Char) (perms : Str)
    (m nlink size : Nat) (mtime d n : Str)
    (hp : perms.length = 9) (hm : parseUnixMode perms = .ok m) (hc0 : c0 ≠ 'l')
    (hmt : mtime.length = 12) (hms : startsWithPySpace mtime = false)
    (hd : lsDate (strip mtime) = .ok d)
    (hn : ValidName n) (hns : startsWithPySpace n = false) (path : PPath) :
    ∃ info, listStep (parseListLineUnixStr lsDate) path
        (buildListString (c0 :: perms) nlink size mtime n ++ END_OF_LINE) =
      .ok (some (⟨path.root, path.parts ++ [n]⟩, info)) ∧
      dictGet info "type".toList = .ok (typeOfChar c0) ∧
      dictGet info "size".toList = .ok (natToStr size) := by
  refine ⟨[("type".toList, typeOfChar c0), ("unix.mode".toList, natToStr m),
         ("unix.links".toList, natToStr nlink), ("unix.owner".toList, "none".toList),
         ("unix.group".toList, "none".toList), ("size".toList, natToStr size),
         ("modify".toList, d)], ?_, ?_, ?_⟩
  · have h := list_name_roundtrip_partial lsDate c0 perms m nlink size mtime d n hp hm hc0 hmt hms hd hn hns
    have hstr : PPath.str ⟨0, [n]⟩ = n := by simp [PPath.str, rootStr, joinWith]
    refine (listStep_entry _ path _ ⟨0, [n]⟩ _ (typeOfChar c0) h ?_ ?_).trans ?_
    · rw [hstr]; intro hh; rcases hh with hh | hh; exact hn.2.1 hh; exact hn.2.2.1 hh
    · simp [dictGet]
    · simp [PPath.join]
  · simp [dictGet]
  · simp [dictGet]

/-! ### non-vacuity -/

example : ValidName "Type=dir; \"q\" -> x;=".toList := by decide
example : ValidName ("  lead".toList ++ [Char.ofNat 0x1F600]) := by decide
example : ¬ ValidName "trail ".toList := by decide
example : ¬ ValidName ['a', Char.ofNat 0x3000] := by decide
example : C02.AbsNormal ⟨1, ["x".toList, "y z".toList]⟩ := by
  refine ⟨rfl, ?_⟩
  intro x hx; simp at hx
  rcases hx with rfl | rfl <;> refine ⟨by decide, by decide, by decide, by decide⟩

/-- an MLSD line for a name that looks like facts; it comes back intact -/
example : parseMlsxLine (buildMlsxString [("Size".toList, "0".toList), ("Type".toList, "dir".toList)]
      " Type=file; x".toList ++ END_OF_LINE)
    = (⟨0, [" Type=file; x".toList]⟩, [("size".toList, "0".toList), ("type".toList, "dir".toList)]) := by
  decide

example : FactsOK [("Size".toList, "0".toList), ("Type".toList, "dir".toList)] := by
  intro kv hkv; simp at hkv
  rcases hkv with rfl | rfl <;> decide

/-- `MLSD  x` (name with a leading blank): the `.strip()` of the command does not touch it -/
example : srvParseCommand (wireLine (clientCmd "MLSD ".toList true " x".toList)) = ("mlsd".toList, " x".toList) := by
  decide

/-- a LIST line round trip on concrete data -/
example : (parseListLineUnixStr (fun _ => .ok "D".toList)
      (buildListString (filemode 0o040755) 1 0 "Jan  1  1970".toList "a \"b\"; c".toList ++ END_OF_LINE)).map
      (fun e => e.1) = .ok ⟨0, ["a \"b\"; c".toList]⟩ := by decide

end C08
