/-
  C19  Malformed input from the peer is contained.

  ==========================  CLIENT-PARSER PART (slice c08)  ==========================
  Everything between the BEGIN/END markers below belongs to the client-parser half:
  listing lines, '.'/'..' entries, unparsable lines, passive-mode replies and the 257 payload.
  The server / session half is added outside these markers.

  The theorems are meaningful only because the primitive models in `Py/StrErr.lean`, `Py/Utf8.lean`
  and the parsers in `Model/ListingParse.lean` carry CPython's real exception classes
  (`PyErr` has `AttributeError`, `TypeError`, `OverflowError`, `Other _` constructors that the chain
  does NOT catch), so "only ValueError comes out" is a statement about the transcribed code, not about
  a type; the correspondence run checks the predicted class against the real code on every input.
-/
import AioftpModel.Lemmas.ListingErr
import AioftpModel.Generated.Client
import AioftpModel.Model.Intake
import AioftpModel.Properties.C10
import AioftpModel.Properties.C17

namespace C19
open Model Model.Names Model.ListingParse Py Py.StrErr Py.Utf8

/-! ## BEGIN client-parser part (slice c08) -/

/-- the date helpers (owned by C07) may raise, but only classes the chain converts; the shipped
    `parse_ls_date` / `strptime` raise ValueError -/
def DateOracleOK (f : Str → Except PyErr Str) : Prop := ∀ s, ErrIn Caught (f s)

/-- the model's catch set is the tuple written in `parse_list_line` (generated from client.py) -/
theorem chain_catch_set_is_generated :
    (∀ c ∈ Generated.listChainCaught, c ∈ ["ValueError", "KeyError", "IndexError"]) ∧
    (∀ c ∈ ["ValueError", "KeyError", "IndexError"], c ∈ Generated.listChainCaught) ∧
    Generated.listChainParsers = ["parse_list_line_unix", "parse_list_line_windows"] ∧
    (PyErr.ValueError.caughtByListChain ∧ PyErr.KeyError.caughtByListChain ∧
     PyErr.IndexError.caughtByListChain ∧ PyErr.UnicodeDecodeError.caughtByListChain) ∧
    (¬ PyErr.AttributeError.caughtByListChain ∧ ¬ PyErr.TypeError.caughtByListChain ∧
     ¬ PyErr.OverflowError.caughtByListChain ∧ ∀ c, ¬ (PyErr.Other c).caughtByListChain) := by
  refine ⟨by decide, by decide, by decide, by decide, by decide, by decide, by decide, ?_⟩
  intro c; simp [PyErr.caughtByListChain]

/-- **list_line_error_is_ValueError.**  For EVERY byte string, `parse_list_line` returns an entry or
    raises exactly ValueError: undecodable bytes (UnicodeDecodeError), `s[0]` on an empty line
    (IndexError), the mode table (KeyError), `index`/`rindex`/digit checks (ValueError), the symlink
    target probes (IndexError) are all inside the chain's catch set, and nothing else can be raised. -/
theorem list_line_error_is_ValueError (lsDate winDate : Str → Except PyErr Str)
    (hl : DateOracleOK lsDate) (hw : DateOracleOK winDate) (b : RawLine) :
    (∃ r, parseListLine lsDate winDate b = .ok r) ∨ parseListLine lsDate winDate b = .error .ValueError :=
  parseListLine_ok_or_ValueError lsDate winDate hl hw b

/-- the classes the unix parser alone can raise (what the chain has to catch) -/
theorem unix_parser_classes (lsDate : Str → Except PyErr Str) (hl : ∀ s, ErrIn (· = .ValueError) (lsDate s))
    (b : RawLine) :
    ErrIn (fun e => e = .ValueError ∨ e = .KeyError ∨ e = .IndexError ∨ e = .UnicodeDecodeError)
      (parseListLineUnix lsDate b) :=
  parseListLineUnix_errs lsDate (Or.inl rfl) (Or.inr (Or.inl rfl)) (Or.inr (Or.inr (Or.inl rfl)))
    (Or.inr (Or.inr (Or.inr rfl))) (fun s => (hl s).mono (fun _ he => Or.inl he)) b

/-- the windows parser raises ValueError or UnicodeDecodeError only -/
theorem windows_parser_classes (winDate : Str → Except PyErr Str)
    (hw : ∀ s, ErrIn (· = .ValueError) (winDate s)) (b : RawLine) :
    ErrIn (fun e => e = .ValueError ∨ e = .UnicodeDecodeError) (parseListLineWindows winDate b) :=
  parseListLineWindows_errs winDate (Or.inl rfl) (Or.inr rfl) (fun s => (hw s).mono (fun _ he => Or.inl he)) b

/-- each of the four classes really occurs (so the catch tuple has no dead member and the theorem is
    not vacuous): empty line, short line, bad permission pair, undecodable byte -/
theorem unix_parser_class_witnesses :
    parseListLineUnix (fun _ => .ok []) [] = .error .IndexError ∧
    parseListLineUnix (fun _ => .ok []) (encodeUtf8 "-rw-r--r-".toList) = .error .IndexError ∧
    parseListLineUnix (fun _ => .ok []) (encodeUtf8 "-r?-r--r-- 1 a b 0 Jan  1 00:00 x".toList) = .error .KeyError ∧
    parseListLineUnix (fun _ => .ok []) (encodeUtf8 "-rwEr--r-- 1 a b 0 Jan  1 00:00 x".toList) = .error .ValueError ∧
    parseListLineUnix (fun _ => .ok []) [0x2d, 0xff] = .error .UnicodeDecodeError ∧
    parseListLineUnix (fun _ => .ok []) (encodeUtf8 "lrwxrwxrwx 1 a b 0 Jan  1 00:00 x -> '".toList) = .error .IndexError := by
  refine ⟨by decide, by decide, by decide, by decide, by decide, by decide⟩

/-- a date helper that raised something outside the catch set would escape — the hypothesis of
    `list_line_error_is_ValueError` is needed -/
theorem chain_lets_other_classes_through :
    parseListLine (fun _ => .error .TypeError) (fun _ => .ok [])
      (encodeUtf8 "-rw-r--r-- 1 a b 0 Jan  1 00:00 x".toList) = .error .TypeError := by decide

/-- `parse_mlsx_line` never raises on text; on bytes only UnicodeDecodeError (a ValueError) -/
theorem mlsx_line_classes (b : RawLine) : ErrIn (· = .UnicodeDecodeError) (parseMlsxLineBytes b) := by
  unfold parseMlsxLineBytes
  exact ErrIn.bind (decodeUtf8E_errs b) (fun _ => ErrIn.pure _)

/-- **unparsable_reported.**  A line the parser rejects makes `Client.list` raise that exception;
    it is never silently dropped (for any parser, any directory, any position in the stream). -/
theorem unparsable_reported {α : Type} (parse : α → Except PyErr ListEntry) (path : PPath)
    (pre : List α) (l : α) (post : List α) (e : PyErr)
    (hpre : ∀ x ∈ pre, ∃ r, listStep parse path x = .ok r) (hl : parse l = .error e) :
    listLines parse path (pre ++ l :: post) = .error e :=
  listLines_first_error parse path pre l post e hpre (listStep_error parse path l e hl)

/-- a listing succeeds exactly when every line yields or is a dot entry -/
theorem list_ok_iff_every_line_ok {α : Type} (parse : α → Except PyErr ListEntry) (path : PPath) (ls : List α) :
    (∃ rs, listLines parse path ls = .ok rs) ↔ ∀ l ∈ ls, ∃ r, listStep parse path l = .ok r :=
  listLines_ok_iff parse path ls

/-- **dot_entries_skipped.**  An entry whose name normalises to `.` or `..` is skipped, whatever the
    parser and its facts -/
theorem dot_entries_skipped {α : Type} (parse : α → Except PyErr ListEntry) (path : PPath) (line : α)
    (name : PPath) (info : Info) (h : parse line = .ok (name, info))
    (hd : name.str = ['.'] ∨ name.str = dotdot) : listStep parse path line = .ok none :=
  listStep_dot parse path line name info h hd

/-- concrete MLSD and unix `.`/`..` lines are skipped; an *empty* MLSD name (`"Type=dir;"` + blank) is
    `PurePosixPath("") = "."` and skipped too -/
theorem dot_entries_examples :
    listStep parseMlsxLineBytes ⟨0, ["d".toList]⟩ (encodeUtf8 "Type=cdir; .\r\n".toList) = .ok none ∧
    listStep parseMlsxLineBytes ⟨0, ["d".toList]⟩ (encodeUtf8 "Type=pdir; ..\r\n".toList) = .ok none ∧
    listStep parseMlsxLineBytes ⟨0, ["d".toList]⟩ (encodeUtf8 "Type=dir; ./\r\n".toList) = .ok none ∧
    listStep parseMlsxLineBytes ⟨0, ["d".toList]⟩ (encodeUtf8 "\r\n".toList) = .ok none ∧
    listStep (parseListLine (fun _ => .ok []) (fun _ => .ok [])) ⟨0, ["d".toList]⟩
      (encodeUtf8 "drwxr-xr-x 2 a b 0 Jan  1 00:00 ..\r\n".toList) = .ok none := by
  refine ⟨by decide, by decide, by decide, by decide, by decide⟩

/-- the windows parser does not skip dot entries, it rejects them: a `dir`-style listing that
    contains `.` ends the whole listing with ValueError (allowed by the property, recorded here) -/
theorem windows_dot_entry_is_ValueError :
    parseListLine (fun _ => .error .ValueError) (fun _ => .ok "D".toList)
      (encodeUtf8 "01/02/2020  10:00 AM <DIR> .".toList) = .error .ValueError := by decide

/-- obligation over the regenerated source: `Client.list` reads the entry's `type` fact with
    `info.get("type")`, not with the subscript `info["type"]` -/
theorem fact_list_type_read_is_total : Generated.listTypeLookupRaises = false := by decide

/-- **list_line_exceptions_are_ValueError (MLSD).**  Whatever lines an MLSD data stream carries, `Client.list`
    yields entries or raises UnicodeDecodeError (a ValueError: an undecodable line) - nothing else; in
    particular a line without a `type` fact is yielded, not answered with KeyError. -/
theorem list_classes_MLSD (path : PPath) (ls : List RawLine) :
    ErrIn (· = .UnicodeDecodeError) (listLines parseMlsxLineBytes path ls) :=
  listLines_errs parseMlsxLineBytes path mlsx_line_classes
    (fun h => absurd (fact_list_type_read_is_total ▸ h) (by decide)) ls

/-- an MLSD line without a `type` fact is yielded with the facts it has -/
theorem mlsd_line_without_type_is_yielded :
    listStep parseMlsxLineBytes ⟨0, []⟩ (encodeUtf8 "Size=1; x\r\n".toList) =
      .ok (some (⟨0, ["x".toList]⟩, [("size".toList, "1".toList)])) := by decide

/-- on the pinned tree (`info["type"]`) the same line made `list()` raise KeyError - not the documented
    ValueError: the defect that was repaired (witness kept on the parameterised model) -/
theorem old_mlsd_line_without_type_is_KeyError :
    listStepWith true parseMlsxLineBytes ⟨0, []⟩ (encodeUtf8 "Size=1; x\r\n".toList) = .error .KeyError := by decide

/-- **list_line_exceptions_are_ValueError (LIST).**  the exceptions of a whole LIST listing are ValueError only -/
theorem list_classes_LIST (lsDate winDate : Str → Except PyErr Str)
    (hl : DateOracleOK lsDate) (hw : DateOracleOK winDate) (path : PPath) (ls : List RawLine) :
    ErrIn (fun e => e = .ValueError) (listLines (parseListLine lsDate winDate) path ls) := by
  apply listLines_errs
  · intro l e he
    rcases list_line_error_is_ValueError lsDate winDate hl hw l with ⟨r, hr⟩ | hr
    · rw [hr] at he; cases he
    · rw [hr] at he; cases he; rfl
  · exact fun h => absurd (fact_list_type_read_is_total ▸ h) (by decide)

/-- with the LIST parsers a KeyError branch would be dead anyway: both always set `type` -/
theorem list_entry_has_type_unix (lsDate : Str → Except PyErr Str) (s : Str) (r : ListEntry)
    (h : parseListLineUnixStr lsDate s = .ok r) : ∃ v, dictGet r.2 "type".toList = .ok v := by
  unfold parseListLineUnixStr at h
  simp only [bind, Except.bind, pure, Except.pure] at h
  repeat' (split at h)
  all_goals first
    | (cases h; done)
    | (cases h; exact ⟨_, rfl⟩)

/-! ### passive-mode replies and the 257 payload: total, with these exception classes -/

/-- **pasv_epsv_257_total** (1): `parse_pasv_response` returns `(ip, port)` or raises ValueError
    (no parenthesis: unpacking; a field `int()` rejects, incl. > 4300 digits) or IndexError (fewer than
    six numbers) — ordinary exceptions, nothing else -/
theorem pasv_total (s : Str) :
    ErrIn (fun e => e = .ValueError ∨ e = .IndexError) (parsePasvResponse s) := parsePasvResponse_errs s

/-- (2): `parse_epsv_response` returns the port or raises IndexError (no `(<d><d><d>digits<d>)` group:
    `matches[-1]` on an empty tuple) or ValueError (more than 4300 digits) -/
theorem epsv_total (s : Str) :
    ErrIn (fun e => e = .IndexError ∨ e = .ValueError) (parseEpsvResponse s) := parseEpsvResponse_errs s

/-- (3): `parse_directory_response` is a total function (its type has no error component);
    without any quote it yields `PurePosixPath("")`, i.e. `.` -/
theorem directory_response_total (s : Str) : ∃ p : PPath, parseDirectoryResponse s = p := ⟨_, rfl⟩

theorem directory_response_no_quote (s : Str) (h : '"' ∉ s) : parseDirectoryResponse s = ⟨0, []⟩ := by
  have : ∀ (s : Str) (k : Bool), '"' ∉ s → pdrLoop s false k [] = [] := by
    intro s k
    induction s with
    | nil => intro _; rfl
    | cons c t ih =>
      intro hq
      simp only [List.mem_cons, not_or] at hq
      have hc : c ≠ '"' := fun e => hq.1 e.symm
      simp only [pdrLoop, Bool.not_false, if_true, hc, if_false]
      exact ih hq.2
  unfold parseDirectoryResponse
  rw [this s false h]
  decide

theorem passive_witnesses :
    parsePasvResponse "Entering Passive Mode (127,0,0,1,4,5).".toList = .ok ("127.0.0.1".toList, 1029) ∧
    parsePasvResponse "no parenthesis".toList = .error .ValueError ∧
    parsePasvResponse "(1,2,3,4,5)".toList = .error .IndexError ∧
    parsePasvResponse "(1,2,3,4,5,x)".toList = .error .ValueError ∧
    parseEpsvResponse "Entering Extended Passive Mode (|||6446|)".toList = .ok 6446 ∧
    parseEpsvResponse "(1111111)".toList = .ok 111 ∧
    parseEpsvResponse "(|||6446|".toList = .error .IndexError := by decide

/-! ## END client-parser part (slice c08) -/


/-! ## server / session half (outside the client-parser section)

Whatever bytes a peer sends on the control channel - undecodable, over-long, unknown verbs, garbage
arguments, premature end of stream - the multi-session model either dispatches a decoded line or ends THAT
session; in both cases no other session changes, and the slot accounting of C10 holds after every history
of such inputs (so the ended session's resources are back).  That the real dispatcher behaves like this
model on raw bytes is the differential run in harness/props/c19_server.py. -/

section Server
open Model.Intake Model.Counters

/-- **garbage_frame**: for EVERY byte string sent by session `sid`, every other session is exactly what it was -/
theorem garbage_frame (cfg : Model.Session.Cfg) (sys : Sys) (sid : Nat) (raw : Model.Bytes) (j : Nat) (hj : j ≠ sid)
    (hlt : j < sys.sessions.length) :
    (sysStep cfg sys (Intake.toEvent sid raw)).sessions[j]? = sys.sessions[j]? := by
  apply C17.frame cfg sys _ j _ hlt
  unfold Intake.toEvent
  cases classify raw <;> simp [C17.sidOf] <;> exact fun h => hj h.symm

/-- **garbage_contained**: after ANY history of connects, control-byte chunks (of any content and length),
    data connections and vanishing peers, the slot accounting is exact: free + holders = configured limit,
    server-wide and per user - in particular every session that was ended by garbage has given its slots back. -/
theorem garbage_contained (cfg : Model.Session.Cfg) (fs : Model.Fs) (ins : List Input) :
    (∀ m, cfg.maxConn = some m →
      ∃ f, (runBytes cfg (initSys cfg fs) ins).world.serverFree = some f ∧
        f + holding (runBytes cfg (initSys cfg fs) ins).sessions = m) ∧
    (∀ (u : Nat) (uc : Model.Session.UserCfg) (m : Nat), cfg.users[u]? = some uc → uc.maxConn = some m →
      ∃ f, (runBytes cfg (initSys cfg fs) ins).world.userFree[u]? = some (some f) ∧
        f + attached (runBytes cfg (initSys cfg fs) ins).sessions u = m) :=
  C10.slots_invariant cfg fs (ins.map Input.toEvent)

/-- undecodable, over-long and empty reads end the session and nothing else -/
theorem bad_line_ends_session (sid : Nat) (raw : Model.Bytes)
    (h : ∀ s, classify raw ≠ .line s) : Intake.toEvent sid raw = .finish sid := by
  unfold Intake.toEvent
  cases hc : classify raw with
  | line s => exact absurd hc (h s)
  | undecodable => rfl
  | overlong => rfl
  | eof => rfl

/-- non-vacuity: `FF 0D 0A` is undecodable, 70 000 bytes are over-long, `PWD\r\n` is a line -/
example : Intake.toEvent 3 [0xFF, 13, 10] = .finish 3 := by
  have : Py.Utf8.decodeUtf8E [0xFF, 13, 10] = .error .UnicodeDecodeError := by decide
  simp [Intake.toEvent, classify, lineLimit, this]
example : Intake.toEvent 3 [80, 87, 68, 13, 10] = .line 3 ['P', 'W', 'D', '\r', '\n'] [] := by
  have : Py.Utf8.decodeUtf8E [80, 87, 68, 13, 10] = .ok ['P', 'W', 'D', '\r', '\n'] := by decide
  simp [Intake.toEvent, classify, lineLimit, this]

/-- whatever the peer does to the control connection while replies are queued (reset before the answer is out,
    never reading), the session-ending wait in `response_queue.join()` ends once the reply writer is gone, so the
    session's resources are released (`C12.join_cannot_hang`, all schedules) -/
theorem vanished_peer_cannot_pin_the_session (evs : List Model.ReplyQueue.Ev)
    (hd : (Model.ReplyQueue.run Model.ReplyQueue.facts Model.ReplyQueue.init evs).writerAlive = false) :
    (Model.ReplyQueue.run Model.ReplyQueue.facts Model.ReplyQueue.init evs).joinReturns :=
  (C12.join_cannot_hang evs).2 hd

end Server

end C19
