/-
  C03  Nothing is served before a completed login; re-USER drops the old login.

  The guard stacks are the ones the translator recovered from the live bound methods
  (`Generated.Verb.guards`), so `guards_table` is re-checked by the kernel against what the code says now:
  dropping `login_required` from any handler breaks that obligation on the next run.
-/
import AioftpModel.Properties.C05
import AioftpModel.Lemmas.Session

namespace C03
open Model Model.Session Py Generated

/-- the only verbs that may act before login: they touch neither tree, cwd nor data channel -/
def loginFree : List Verb := [.user, .pass, .quit, .rest, .syst]

def firstGuardLogin (v : Verb) : Bool :=
  match v.guards with
  | .conn fs _ 503 :: _ => fs.contains .logged
  | _ => false

/-- **guards_table** (decision over the regenerated table): every verb outside `loginFree` has
    `ConnectionConditions(login_required, …)` with fail code 503 as its OUTERMOST decorator. -/
theorem guards_table_b : ∀ v ∈ Verb.all, v ∉ loginFree → firstGuardLogin v = true := by decide

theorem guards_table (v : Verb) (hn : v ∉ loginFree) :
    ∃ fs w rest', v.guards = .conn fs w 503 :: rest' ∧ Field.logged ∈ fs := by
  have h := guards_table_b v (all_verbs v) hn
  unfold firstGuardLogin at h
  split at h
  · rename_i fs w rest' heq
    exact ⟨fs, w, rest', heq, by simpa using h⟩
  · exact absurd h (by simp)

/-- PASS needs a preceding USER: its outermost decorator requires `user` -/
theorem pass_guard : Verb.pass.guards = [.conn [.user] false 503] := by decide

/-- before login the guard stack of a protected verb fails at its first element with 503,
    whatever the tree, the argument and the rest of the state are -/
theorem not_logged_503 (cfg : Cfg) (w : World) (s : SState) (v : Verb) (arg : PPath)
    (hl : s.logged = false) (hv : v ∉ loginFree) :
    runGuards cfg w s arg v.guards = .fail 503 := by
  obtain ⟨fs, wt, rest', hg, hm⟩ := guards_table v hv
  rw [hg]
  simp only [runGuards, runGuard]
  cases hf : fs.find? (fun f => !fieldSet s f) with
  | none =>
    have := List.find?_eq_none.mp hf Field.logged hm
    simp [fieldSet, hl] at this
  | some x => simp

/-- **nothing_served_before_login.**  For every state that is not logged in, every tree, every parsed
    command whose verb is not USER/PASS/QUIT/REST/SYST: the answer is 503 (502 for an unknown verb) and
    the tree, slot counters, working directory, pending rename, listener, data connection, user and login
    flag are untouched; the session stays alive. -/
theorem nothing_served_before_login (cfg : Cfg) (w : World) (s : SState) (name rest : Str)
    (payload : Bytes) (hl : s.logged = false)
    (hv : ∀ v, verbOf name = some v → v ∉ loginFree) :
    let r := dispatch cfg w s name rest payload
    r.1 = w ∧ (r.2.2.replies = [503] ∨ r.2.2.replies = [502]) ∧ r.2.2.crashed = false ∧
    r.2.1.cwd = s.cwd ∧ r.2.1.renameFrom = s.renameFrom ∧ r.2.1.passive = s.passive ∧
    r.2.1.dataConn = s.dataConn ∧ r.2.1.logged = false ∧ r.2.1.user = s.user ∧
    r.2.1.alive = s.alive := by
  simp only
  unfold dispatch
  cases hvo : verbOf name with
  | none => simp [hl]
  | some v =>
    have hnf := hv v hvo
    simp only []
    unfold runVerb
    rw [not_logged_503 cfg w _ v _ (by rw [resetRestart_logged]; exact hl) hnf]
    simp [hl]

/-- lifted to raw command lines as the dispatcher receives them -/
theorem nothing_served_before_login_line (cfg : Cfg) (w : World) (s : SState) (raw : Str)
    (payload : Bytes) (hl : s.logged = false) (ha : s.alive = true)
    (hv : ∀ v, verbOf (parseCommand raw).1 = some v → v ∉ loginFree) :
    let r := step cfg w s (.line raw payload)
    r.1 = w ∧ (r.2.2.replies = [503] ∨ r.2.2.replies = [502]) ∧ r.2.1.cwd = s.cwd ∧
    r.2.1.passive = s.passive ∧ r.2.1.dataConn = s.dataConn ∧ r.2.1.logged = false ∧
    r.2.1.alive = true := by
  have h := nothing_served_before_login cfg w s (parseCommand raw).1 (parseCommand raw).2 payload hl hv
  simp only at h
  obtain ⟨h1, h2, _, h4, _, h6, h7, h8, _, h10⟩ := h
  have hs0 : step0 cfg w s (.line raw payload) =
      dispatch cfg w s (parseCommand raw).1 (parseCommand raw).2 payload := rfl
  simp only
  rw [step_of_alive cfg w s _ (by rw [hs0, h10, ha]), hs0]
  exact ⟨h1, h2, h4, h6, h7, h8, by rw [h10, ha]⟩

/-- the same replies and state for any two worlds: the storage backend is not consulted before login -/
theorem backend_independent_before_login (cfg : Cfg) (w₁ w₂ : World) (s : SState) (name rest : Str)
    (payload : Bytes) (hl : s.logged = false)
    (hv : ∀ v, verbOf name = some v → v ∉ loginFree) :
    (dispatch cfg w₁ s name rest payload).2 = (dispatch cfg w₂ s name rest payload).2 := by
  unfold dispatch
  cases hvo : verbOf name with
  | none => rfl
  | some v =>
    have hnf := hv v hvo
    simp only []
    unfold runVerb
    rw [not_logged_503 cfg w₁ _ v _ (by rw [resetRestart_logged]; exact hl) hnf,
        not_logged_503 cfg w₂ _ v _ (by rw [resetRestart_logged]; exact hl) hnf]

/-! ### what USER and PASS do to the login state -/

/-- the login-relevant projection of a step of the `user` body -/
theorem user_body_spec (cfg : Cfg) (w : World) (s : SState) (rest : Str) (arg : PPath) (p : Bytes) :
    let w1 : World := match s.user with
      | some i => { w with userFree := updUser w.userFree i release }
      | none => w
    let r := body cfg w s .user rest arg p
    r.2.1.logged = (getUser cfg w1 rest).2.2 ∧ r.2.1.user = (getUser cfg w1 rest).2.1 ∧
    r.2.2.replies = [(getUser cfg w1 rest).1] := by
  simp only [body]
  exact ⟨rfl, rfl, rfl⟩

/-- `get_user` says "logged" only for a user that needs no password -/
theorem getUser_logged_needs_no_password (cfg : Cfg) (w : World) (login : Str)
    (h : (getUser cfg w login).2.2 = true) :
    ∃ i u, (getUser cfg w login).2.1 = some i ∧ cfg.users[i]? = some u ∧
      (u.login = none ∨ u.password = none) := by
  unfold getUser at h ⊢
  split at h
  · simp at h
  · rename_i i hi
    split at h
    · simp at h
    · rename_i u hu
      split at h
      · simp at h
      · split at h
        · rename_i hlogin
          refine ⟨i, u, ?_, hu, Or.inl ?_⟩
          · simp [hu, *]
          · simpa using hlogin
        · split at h
          · rename_i hl2 hpw
            refine ⟨i, u, ?_, hu, Or.inr ?_⟩
            · simp [hu, *]
            · simpa using hpw
          · simp at h

/-- **reuser_drops.**  After USER (any argument, any previous state) the session is logged in only if
    the *new* user needs no password: the previous login never survives. -/
theorem reuser_drops (cfg : Cfg) (w : World) (s : SState) (rest : Str) (arg : PPath) (p : Bytes) :
    let r := body cfg w s .user rest arg p
    r.2.1.logged = true →
      ∃ i u, r.2.1.user = some i ∧ cfg.users[i]? = some u ∧ (u.login = none ∨ u.password = none) := by
  intro r hl
  have hs := user_body_spec cfg w s rest arg p
  simp only at hs
  obtain ⟨h1, h2, _⟩ := hs
  have hl' : r.2.1.logged = true := hl
  rw [show r.2.1.logged = _ from h1] at hl'
  obtain ⟨i, u, a, b, c⟩ := getUser_logged_needs_no_password cfg _ rest hl'
  exact ⟨i, u, by rw [show r.2.1.user = _ from h2]; exact a, b, c⟩

/-- **bad_pass_never_authorises.**  PASS turns an unauthenticated session into an authenticated one only
    when a user is pending and the argument is exactly that user's password. -/
theorem pass_authorises_only_with_password (cfg : Cfg) (w : World) (s : SState) (rest : Str)
    (arg : PPath) (p : Bytes) (hl : s.logged = false) :
    let r := body cfg w s .pass rest arg p
    r.2.1.logged = true → ∃ i u, s.user = some i ∧ cfg.users[i]? = some u ∧ u.password = some rest := by
  intro r h
  simp only [r, body, hl] at h
  cases hu : s.user with
  | none => simp [hu] at h
  | some i =>
    cases hc : cfg.users[i]? with
    | none => simp [hu, hc] at h
    | some u =>
      simp only [hu, hc, Option.bind] at h
      by_cases hp : u.password = some rest
      · exact ⟨i, u, rfl, hc, hp⟩
      · have : (u.password == some rest) = false := by simpa using hp
        simp [this, hl] at h

/-- every other verb leaves user and login flag alone (session still alive) -/
theorem other_verbs_preserve_login (cfg : Cfg) (w : World) (s : SState) (v : Verb) (rest : Str)
    (arg : PPath) (p : Bytes) (hv : v ≠ .user) (hp : v ≠ .pass) :
    let r := body cfg w s v rest arg p
    r.2.1.user = s.user ∧ r.2.1.logged = s.logged := by
  cases v <;> simp [body, worker, workerK] at hv hp ⊢ <;> (repeat' split) <;> simp_all

/-! ### non-vacuity -/

def demoCfg : Cfg :=
  { users := [⟨none, none, ⟨1, []⟩, [], none⟩,
              ⟨some "admin".toList, some "pw".toList, ⟨1, []⟩, [], none⟩], maxConn := none }
def demoWorld : World := { fs := [], serverFree := none, userFree := [none, none] }

/-- anonymous → `USER admin` → `MKD x` is rejected with 503 and changes nothing -/
example :
    let s0 : SState := {}
    let (w1, s1, _) := step demoCfg demoWorld s0 (.line "USER anonymous".toList [])
    let (w2, s2, o2) := step demoCfg w1 s1 (.line "USER admin".toList [])
    let (w3, _, o3) := step demoCfg w2 s2 (.line "MKD x".toList [])
    s1.logged = true ∧ s2.logged = false ∧ o2.replies = [331] ∧ o3.replies = [503] ∧ w3.fs = [] := by
  decide

/-- a wrong password does not log in, the right one does -/
example :
    let s0 : SState := {}
    let (w1, s1, _) := step demoCfg demoWorld s0 (.line "USER admin".toList [])
    let (w2, s2, o2) := step demoCfg w1 s1 (.line "PASS nope".toList [])
    let (_, s3, o3) := step demoCfg w2 s2 (.line "PASS pw".toList [])
    s2.logged = false ∧ o2.replies = [530] ∧ s3.logged = true ∧ o3.replies = [230] := by
  decide

/-! ### no command is judged under one login and executed under another (F18, repaired in /repo 6553f05) -/

/-- `RETR f` and `USER other` in one segment: with a backend whose calls suspend, the pinned dispatcher let USER swap
    the session's user between the login guard of RETR and its handler.  As the source is now at most one handler runs
    at any moment and handlers start in arrival order (`C05.pipelined_commands_handled_in_order`), so every command is
    `Session.step` on the state its predecessors left - and `nothing_served_before_login`,
    `reuser_drops`, `pass_authorises_only_with_password` above speak about pipelined input as well. -/
theorem no_handler_runs_beside_another (evs : List Model.Dispatch.Ev) :
    (Model.Dispatch.runNow evs).running.length ≤ 1 :=
  (C05.pipelined_commands_handled_in_order evs).1

end C03
