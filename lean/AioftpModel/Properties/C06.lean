/-
  C06  Reply framing: what the server encodes is what the client decodes.

  Statements only; proofs go through Lemmas/Framing.lean.  Everything is quantified over *every*
  code, line list, framing mode, encoding (utf-8 / latin-1), segmentation of the byte stream and
  reply sequence.  Model: Model/Framing.lean (transcription of server.py `write_line`,
  `write_response`, `parse_command`; client.py `Code.matches`, `parse_line`, `parse_response`,
  `check_codes`, `command`; asyncio `StreamReader.readline`).

  The domain of the round-trip theorems (`InDomain`): the code is three `str.isdigit` characters,
  no line contains LF, every line is encodable, list mode has at least two lines.  What the client
  returns for *any* in-domain reply is determined exactly (`roundtrip`): the text lines come back
  stripped of trailing whitespace.  They are identical to what was sent iff they were stable under
  `rstrip()` (`roundtrip_exact`); `trailing_whitespace_lost` shows that the real code violates
  the property for a reply the server itself emits (MLST of a name ending in a blank).
-/
import AioftpModel.Lemmas.Framing
import AioftpModel.Generated.Replies

namespace C06
open Model Py

/-- bytes of an ASCII string literal (used in examples only) -/
def ascii (s : String) : Bytes := s.toList.map Char.toNat

/-! ### segmentation -/

/-- **segmentation_irrelevant.**  Whatever way the byte stream is cut into network segments (empty
    segments, one byte at a time, cuts inside CR LF or inside a multi-byte character), the sequence
    of results of `readline()` is the line structure of the concatenation. -/
theorem segmentation_irrelevant (segs : List Bytes) :
    readlines segs = splitLines segs.flatten ∧ readlines segs = readlines [segs.flatten] := by
  refine ⟨readlines_eq_splitLines segs, ?_⟩
  rw [readlines_eq_splitLines, readlines_eq_splitLines]
  simp

/-- two segmentations of the same bytes are indistinguishable to any consumer -/
theorem segmentation_irrelevant_any_two (segs₁ segs₂ : List Bytes) (h : segs₁.flatten = segs₂.flatten) :
    readlines segs₁ = readlines segs₂ := by
  rw [readlines_eq_splitLines, readlines_eq_splitLines, h]

/-- feeding two segments without a read in between is feeding their concatenation, and what
    `readline()` returns depends on the buffer and the EOF flag only: a call that had to wait and is
    resumed after the next segment is the same as a call made after it -/
theorem feed_feed (r : Reader) (a b : Bytes) : (r.feed a).feed b = r.feed (a ++ b) := by
  simp [Reader.feed, List.append_assoc]

example : readlines [[50, 53], [], [48, 32, 111, 13], [10, 50], [50, 54]] =
    [[50, 53, 48, 32, 111, 13, 10], [50, 50, 54]] := by decide

/-! ### round trip -/

/-- **roundtrip.**  For every in-domain reply, every encoding and every continuation `tail` of the
    byte stream: `write_response` raises nothing, and `parse_response` on the stream returns the
    same code, the `info` list `infoOf lines list`, and leaves exactly `tail`; the text lines
    (info entries without their separator character) are the lines that were sent, stripped on
    the right. -/
theorem roundtrip (enc : Encoding) (r : Rep) (h : InDomain enc r) (tail : Bytes) :
    (writeResponse enc r.code (.many r.lines) r.list).2 = none ∧
    (wire enc r).length = r.lines.length ∧
    parseResponse enc (splitLines ((wire enc r).flatten ++ tail)) =
      (.ok (r.code, infoOf r.lines r.list), splitLines tail) ∧
    (infoOf r.lines r.list).map (List.drop 1) = r.lines.map rstrip := by
  obtain ⟨h1, h2, h3, h4⟩ := wire_spec h
  refine ⟨h1, h2, ?_, infoOf_texts _ _⟩
  rw [splitLines_chunks _ _ h3]
  exact h4 _

/-- **roundtrip_exact.**  If moreover every line is stable under `rstrip()`, the decoded text lines
    are exactly the lines that were sent. -/
theorem roundtrip_exact (enc : Encoding) (r : Rep) (h : InDomain enc r)
    (hs : ∀ l ∈ r.lines, rstrip l = l) (tail : Bytes) :
    ∃ info, parseResponse enc (splitLines ((wire enc r).flatten ++ tail)) =
        (.ok (r.code, info), splitLines tail) ∧ info.map (List.drop 1) = r.lines := by
  obtain ⟨_, _, h3, h4⟩ := roundtrip enc r h tail
  refine ⟨_, h3, ?_⟩
  rw [h4]
  calc r.lines.map rstrip = r.lines.map id := List.map_congr_left (fun l hl => hs l hl)
    _ = r.lines := List.map_id _

/-- the same through the reader, for any segmentation of the stream -/
theorem roundtrip_segmented (enc : Encoding) (r : Rep) (h : InDomain enc r) (tail : Bytes)
    (segs : List Bytes) (hsegs : segs.flatten = (wire enc r).flatten ++ tail) :
    parseResponse enc (readlines segs) = (.ok (r.code, infoOf r.lines r.list), splitLines tail) := by
  rw [readlines_eq_splitLines, hsegs]
  exact (roundtrip enc r h tail).2.2.1

/-- a single-line reply in a `str` argument is the one-element list (`wrap_with_container`) -/
theorem roundtrip_str (enc : Encoding) (code line : Str) (list : Bool) :
    writeResponse enc code (.one line) list = writeResponse enc code (.many [line]) list := rfl

/-- **sequence.**  A concatenation of in-domain replies decodes to the list of those replies, in
    order, leaving exactly `tail`: no reply can desynchronise the next one. -/
theorem sequence (enc : Encoding) (rs : List Rep) (h : ∀ r ∈ rs, InDomain enc r) (tail : Bytes) :
    parseN enc rs.length (splitLines (((rs.map (wire enc)).flatten).flatten ++ tail)) =
      (rs.map (fun r => .ok (decoded r)), splitLines tail) := by
  induction rs with
  | nil => simp [parseN]
  | cons r rs ih =>
    have hr := h r (by simp)
    obtain ⟨_, _, h3, h4⟩ := wire_spec hr
    simp only [List.map_cons, List.flatten_cons, List.flatten_append, List.append_assoc, List.length_cons]
    rw [splitLines_chunks _ _ h3, parseN]
    simp only [h4]
    rw [ih (fun x hx => h x (List.mem_cons_of_mem _ hx))]

/-- the same for any segmentation -/
theorem sequence_segmented (enc : Encoding) (rs : List Rep) (h : ∀ r ∈ rs, InDomain enc r)
    (tail : Bytes) (segs : List Bytes)
    (hsegs : segs.flatten = ((rs.map (wire enc)).flatten).flatten ++ tail) :
    parseN enc rs.length (readlines segs) = (rs.map (fun r => .ok (decoded r)), splitLines tail) := by
  rw [readlines_eq_splitLines, hsegs]
  exact sequence enc rs h tail

/-- after the last reply the stream is at EOF: one more call raises ConnectionResetError -/
theorem eof_after_sequence (enc : Encoding) : parseResponse enc [] = (.error .connectionReset, []) := rfl

/-! ### list mode -/

/-- **body_never_header.**  A list-mode body line (`" " + l`, any `l`) is never taken for a header:
    what `parse_line` returns for it has a non-digit "code", and code + rest is the line as written,
    stripped on the right — so the loop appends it to `info` and keeps reading, whatever the line
    looks like (`250 done`, `250-more`, digits, empty). -/
theorem body_never_header (enc : Encoding) (l : Str) (ch : Bytes)
    (he : encode enc ((' ' :: l) ++ eol) = some ch) :
    ∃ c r, parseLine1 enc ch = .ok (c, r) ∧ isDigit c = false ∧ c ++ r = rstrip (' ' :: l) :=
  ⟨_, _, parseLine1_written he, isDigit_take3_space l, List.take_append_drop 3 _⟩

/-- … and inside the loop it neither ends the reply nor raises: the state stays open -/
theorem body_line_continues (enc : Encoding) (code l : Str) (ch : Bytes) (hc : Digits3 code)
    (he : encode enc ((' ' :: l) ++ eol) = some ch) (rest curr : Str) (ho : Open rest curr) :
    ∃ rest' curr', Open rest' curr' ∧ ∀ info R,
      parseLoop enc code info rest curr (ch :: R) =
        parseLoop enc code (info ++ [rstrip (' ' :: l)]) rest' curr' R :=
  cont_step hc (ContLine.body l) he ho

/-! ### the spellings of other servers -/

/-- **foreign_spelling_decoded.**  RFC 959 lets a server spell a multi-line reply in more ways than aioftp's server
    does: after the `code-` line any number of lines that repeat the code and a hyphen (`ContLine.hdr`), start with a
    blank (`ContLine.body`), or are plain text whose first three characters are not all digits (`ContLine.raw`), in
    any mixture, then the `code ` line.  The client decodes every such reply into the same code and one entry per
    line - the text after the code for the lines that carry it, the whole line otherwise - and stops exactly at its
    end, for every encoding and every segmentation of the stream.  (`mid` pairs each wire line with its entry.) -/
theorem foreign_spelling_decoded (enc : Encoding) (code l0 t : Str) (mid : List (Str × Str)) (hc : Digits3 code)
    (hmid : ∀ p ∈ mid, ContLine code p.1 p.2)
    (he : ∀ x ∈ (code ++ '-' :: l0) :: mid.map (·.1) ++ [code ++ ' ' :: t], Encodable enc x ∧ '\n' ∉ x)
    (tail : Bytes) (segs : List Bytes)
    (hsegs : segs.flatten =
      (((code ++ '-' :: l0) :: mid.map (·.1) ++ [code ++ ' ' :: t]).map (encLine enc)).flatten ++ tail) :
    parseResponse enc (readlines segs) =
      (.ok (code, ('-' :: rstrip l0) :: mid.map (·.2) ++ [lastInfo t]), splitLines tail) := by
  rw [readlines_eq_splitLines, hsegs, splitLines_chunks]
  · exact parse_foreign_multi hc l0 mid t hmid (fun x hx => line_isSome (he x hx).1) _
  · intro c hc'
    obtain ⟨x, hx, rfl⟩ := List.mem_map.mp hc'
    exact encLine_shape (he x hx).1 (he x hx).2

/-- a raw body line that starts with one or two digits and then something else ("2 users online", "22 files") is
    such a line: it neither ends the reply nor is it taken for a code -/
theorem digit_leading_text_is_body (code : Str) :
    ContLine code "2 users online".toList "2 users online".toList ∧
    ContLine code "22 files".toList "22 files".toList := by
  constructor
  · exact ContLine.raw "2 users online".toList (by decide)
  · exact ContLine.raw "22 files".toList (by decide)

/-- non-vacuity: a 226 reply of five lines in three spellings, cut into single bytes, followed by another reply -/
example :
    parseResponse .utf8 (readlines ((ascii "226-first\r\n226-again\r\n indented\r\n22 files\r\nplain text\r\n226 done\r\n220 next\r\n").map (fun b => [b]))) =
      (.ok ("226".toList, ["-first".toList, "-again".toList, " indented".toList, "22 files".toList, "plain text".toList, " done".toList]),
       [ascii "220 next\r\n"]) := by decide +kernel

/-! ### malformed replies -/

/-- **mismatch_rejected.**  A reply of at least two lines cut before its last line and followed by
    a line whose first three characters are digits different from the reply's code yields
    StatusCodeError (expected = the reply's code, received = the other code, info = what was read
    including that line), and the stream is consumed exactly through that line. -/
theorem mismatch_rejected (enc : Encoding) (code l0 : Str) (mid : List Str) (t : Str) (list : Bool)
    (bad : Str) (h : InDomain enc ⟨code, l0 :: mid ++ [t], list⟩) (hb : Encodable enc bad)
    (hd : isDigit ((rstrip bad).take 3) = true) (hne : (rstrip bad).take 3 ≠ code) (R : List Bytes) :
    parseResponse enc ((wire enc ⟨code, l0 :: mid ++ [t], list⟩).dropLast ++ encLine enc bad :: R) =
      (.error (.statusCode [code] ((rstrip bad).take 3)
        (('-' :: rstrip l0) :: mid.map (contEntry list) ++ [(rstrip bad).drop 3])), R) := by
  obtain ⟨texts, h1, _, h3, _⟩ := h.texts
  rw [responseLines_multi] at h1
  simp only [Except.ok.injEq] at h1
  subst h1
  have hw : wire enc ⟨code, l0 :: mid ++ [t], list⟩ =
      ((code ++ '-' :: l0) :: mid.map (contText code list) ++ [code ++ ' ' :: t]).map (encLine enc) := by
    unfold wire writeResponse
    simp only [wrapWithContainer, responseLines_multi]
    rw [writeLines_eq enc _ (fun t ht => line_isSome (h3 t ht).1)]
  have hgood : ∀ x ∈ (code ++ '-' :: l0) :: mid.map (contText code list) ++ [bad],
      (encode enc (x ++ eol)).isSome = true := by
    intro x hx
    simp only [List.cons_append, List.mem_cons, List.mem_append, List.mem_nil_iff, or_false] at hx
    rcases hx with rfl | hx | rfl
    · exact line_isSome (h3 _ (by simp)).1
    · exact line_isSome (h3 x (by simp [hx])).1
    · exact line_isSome hb
  have := parse_written_bad (enc := enc) h.1 l0 mid list bad hgood hd hne R
  rw [hw]
  have e : (List.map (encLine enc) ((code ++ '-' :: l0) :: List.map (contText code list) mid ++ [code ++ ' ' :: t])).dropLast
      = List.map (encLine enc) ((code ++ '-' :: l0) :: List.map (contText code list) mid) := by
    rw [List.map_append, List.map_singleton, List.dropLast_concat]
  rw [e]
  simpa using this

/-- **next_after_mismatch.**  … and the reply that follows the rejected one is decoded correctly. -/
theorem next_after_mismatch (enc : Encoding) (code l0 : Str) (mid : List Str) (t : Str) (list : Bool)
    (bad : Str) (h : InDomain enc ⟨code, l0 :: mid ++ [t], list⟩) (hb : Encodable enc bad)
    (hd : isDigit ((rstrip bad).take 3) = true) (hne : (rstrip bad).take 3 ≠ code)
    (next : Rep) (hn : InDomain enc next) (R : List Bytes) :
    parseN enc 2 ((wire enc ⟨code, l0 :: mid ++ [t], list⟩).dropLast ++ encLine enc bad :: (wire enc next ++ R)) =
      ([.error (.statusCode [code] ((rstrip bad).take 3)
          (('-' :: rstrip l0) :: mid.map (contEntry list) ++ [(rstrip bad).drop 3])),
        .ok (decoded next)], R) := by
  simp only [parseN]
  rw [mismatch_rejected enc code l0 mid t list bad h hb hd hne]
  simp only
  rw [(wire_spec hn).2.2.2 R]

/-! ### masks -/

/-- **matches_spec.**  `Code(code).matches(mask)` holds exactly when every mask position that is a
    digit (`str.isdigit`, Unicode) and has a counterpart in the code agrees with it; any non-digit
    mask character is a wildcard, positions beyond the shorter string are not compared. -/
theorem matches_spec (code mask : Str) :
    codeMatches code mask = true ↔
      ∀ (i : Nat) (m c : Char), mask[i]? = some m → code[i]? = some c → isDigitCh m = true → m = c :=
  codeMatches_iff code mask

/-- for a three-character mask and code: position-wise agreement on the digit positions -/
theorem matches_spec3 (c₀ c₁ c₂ m₀ m₁ m₂ : Char) :
    codeMatches [c₀, c₁, c₂] [m₀, m₁, m₂] = true ↔
      (isDigitCh m₀ = true → m₀ = c₀) ∧ (isDigitCh m₁ = true → m₁ = c₁) ∧ (isDigitCh m₂ = true → m₂ = c₂) := by
  simp only [codeMatches, List.zip_cons_cons, List.zip_nil_right, List.all_cons, List.all_nil,
    Bool.and_true, Bool.and_eq_true, Bool.or_eq_true, Bool.not_eq_true', beq_iff_eq]
  constructor
  · rintro ⟨h0, h1, h2⟩
    refine ⟨fun h => ?_, fun h => ?_, fun h => ?_⟩
    · rcases h0 with h0 | h0
      · rw [h0] at h; cases h
      · exact h0
    · rcases h1 with h1 | h1
      · rw [h1] at h; cases h
      · exact h1
    · rcases h2 with h2 | h2
      · rw [h2] at h; cases h
      · exact h2
  · rintro ⟨h0, h1, h2⟩
    refine ⟨?_, ?_, ?_⟩
    · cases hd : isDigitCh m₀ with
      | false => exact Or.inl rfl
      | true => exact Or.inr (h0 hd)
    · cases hd : isDigitCh m₁ with
      | false => exact Or.inl rfl
      | true => exact Or.inr (h1 hd)
    · cases hd : isDigitCh m₂ with
      | false => exact Or.inl rfl
      | true => exact Or.inr (h2 hd)

example : codeMatches "123".toList "1x3".toList = true ∧ codeMatches "123".toList "1".toList = true ∧
    codeMatches "123".toList "2xx".toList = false ∧ codeMatches "123".toList "".toList = true ∧
    codeMatches "123".toList "-2-".toList = true ∧ codeMatches "123".toList "²23".toList = false := by decide

/-- `check_codes` raises exactly when no expected mask matches -/
theorem check_codes_spec (expected : List Str) (code : Str) (info : List Str) :
    checkCodes expected code info =
      if expected.any (codeMatches code) then .ok () else .error (.statusCode expected code info) := by
  unfold checkCodes
  cases expected.any (codeMatches code) <;> rfl

/-- **command_loop_spec.**  With wait masks `wait`: replies whose code matches a wait mask are
    skipped, the first in-domain reply that matches none is the result, and the stream is left
    exactly after it. -/
theorem command_loop_spec (enc : Encoding) (wait : List Str) (pre : List Rep) (r : Rep)
    (hpre : ∀ p ∈ pre, InDomain enc p ∧ wait.any (codeMatches p.code) = true)
    (hr : InDomain enc r) (hrw : wait.any (codeMatches r.code) = false) (R : List Bytes) :
    commandLoop enc wait ((pre.map (wire enc)).flatten ++ (wire enc r ++ R)) = (.ok (decoded r), R) := by
  induction pre with
  | nil =>
    simp only [List.map_nil, List.flatten_nil, List.nil_append]
    rw [commandLoop_ok ((wire_spec hr).2.2.2 R), hrw]
    rfl
  | cons p ps ih =>
    obtain ⟨hp, hpw⟩ := hpre p (by simp)
    simp only [List.map_cons, List.flatten_cons, List.append_assoc]
    rw [commandLoop_ok ((wire_spec hp).2.2.2 _), hpw]
    simp only [if_true]
    exact ih (fun q hq => hpre q (List.mem_cons_of_mem _ hq))

/-- if every reply matches a wait mask and the stream ends, the loop ends in ConnectionResetError -/
theorem command_loop_eof (enc : Encoding) (wait : List Str) (pre : List Rep)
    (hpre : ∀ p ∈ pre, InDomain enc p ∧ wait.any (codeMatches p.code) = true) :
    commandLoop enc wait (pre.map (wire enc)).flatten = (.error .connectionReset, []) := by
  induction pre with
  | nil => exact commandLoop_err rfl
  | cons p ps ih =>
    obtain ⟨hp, hpw⟩ := hpre p (by simp)
    simp only [List.map_cons, List.flatten_cons]
    rw [commandLoop_ok ((wire_spec hp).2.2.2 _), hpw]
    simp only [if_true]
    exact ih (fun q hq => hpre q (List.mem_cons_of_mem _ hq))

/-- **command_spec.**  `command(None, expected, wait)`: nothing is read when both mask tuples are
    empty; otherwise the deciding reply is returned if `expected` is empty or one of its masks
    matches, else StatusCodeError(expected, code, info) — the stream position is the same. -/
theorem command_spec (enc : Encoding) (expected wait : StrOrList) (lines : List Bytes) :
    command enc expected wait lines =
      if (wrapWithContainer expected).isEmpty && (wrapWithContainer wait).isEmpty then (.ok none, lines)
      else match commandLoop enc (wrapWithContainer wait) lines with
        | (.error e, r) => (.error e, r)
        | (.ok (code, info), r) =>
          if (wrapWithContainer expected).isEmpty || (wrapWithContainer expected).any (codeMatches code)
          then (.ok (some (code, info)), r)
          else (.error (.statusCode (wrapWithContainer expected) code info), r) := by
  unfold command
  simp only
  generalize commandLoop enc (wrapWithContainer wait) lines = res
  obtain ⟨res, r⟩ := res
  cases he : (wrapWithContainer expected).isEmpty <;> cases hw : (wrapWithContainer wait).isEmpty <;>
    cases res with
    | error e => simp
    | ok p =>
      obtain ⟨code, info⟩ := p
      cases hany : (wrapWithContainer expected).any (codeMatches code) <;>
        simp [check_codes_spec, hany]

/-- a bare `str` mask is the one-element tuple; in particular `""` is one mask that matches everything -/
example : wrapWithContainer (.one []) = [[]] ∧ codeMatches "550".toList [] = true := by decide

/-! ### server side, inbound -/

/-- **parse_command_spec.**  A command line `verb SP arg CRLF` (verb without a blank, argument
    non-empty and stable under `rstrip()`) is split into `(verb.lower(), arg)`; the stream is
    consumed through that line. -/
theorem parse_command_spec (enc : Encoding) (verb arg : Str) (ch : Bytes) (hv : ' ' ∉ verb)
    (ha : rstrip arg = arg) (hne : arg ≠ [])
    (he : encode enc ((verb ++ ' ' :: arg) ++ eol) = some ch) (R : List Bytes) :
    parseCommand enc (ch :: R) = (.ok (lowerFull verb, arg), R) := by
  rw [parseCommand_written he]
  have : rstrip (verb ++ ' ' :: arg) = verb ++ ' ' :: arg := by
    have e : verb ++ ' ' :: arg = (verb ++ [' ']) ++ arg := by simp
    rw [e, rstrip_append, ha, if_neg hne]
  rw [this, partitionSpace_append verb arg hv]

/-- a bare verb (stable under `rstrip()`, no blank): empty argument -/
theorem parse_command_spec_noarg (enc : Encoding) (verb : Str) (ch : Bytes) (hv : ' ' ∉ verb)
    (hs : rstrip verb = verb) (he : encode enc (verb ++ eol) = some ch) (R : List Bytes) :
    parseCommand enc (ch :: R) = (.ok (lowerFull verb, []), R) := by
  rw [parseCommand_written he, hs, partitionSpace_nosep verb hv]

/-- EOF on the command channel -/
theorem parse_command_eof (enc : Encoding) : parseCommand enc [] = (.error .connectionReset, []) := rfl

/-! ### what server.py actually emits (tables regenerated from the source on every run) -/

/-- every literal reply code in server.py is three ASCII digits: it satisfies the `Digits3`
    hypothesis of the round-trip theorems and is encodable in both encodings -/
theorem server_codes_digits3 :
    ∀ s ∈ Generated.replySites, ∀ c ∈ s.codes,
      Digits3 c.toList ∧ ∀ enc, Encodable enc c.toList := by
  have h : ∀ s ∈ Generated.replySites, ∀ c ∈ s.codes,
      c.toList.length = 3 ∧ (∀ ch ∈ c.toList, isDigitCh ch = true) ∧ ∀ ch ∈ c.toList, ch.toNat < 128 := by
    decide
  intro s hs c hc
  obtain ⟨h1, h2, h3⟩ := h s hs c hc
  exact ⟨⟨h1, h2⟩, fun enc ch hch => encodable_ascii enc ch (Nat.lt_trans (h3 ch hch) (by decide))⟩

/-- the list flag is always a literal, and list mode is only used with a literal list of ≥ 2 lines -/
theorem server_list_sites_shape :
    ∀ s ∈ Generated.replySites, s.listSrc = none ∧
      (s.listMode = true → ∃ n, s.nLines = some n ∧ 2 ≤ n) := by decide

/-- the only direct call of `write_response` is the `response_writer` relay of queued replies -/
theorem server_write_response_calls :
    Generated.writeResponseCalls = ["self.write_response(stream, *args)"] := by decide

def pieceOK : Generated.Piece → Bool
  | .lit s => !s.toList.contains '\n'
  | .hole _ => true

/-- a text that ends in a literal ends in a non-blank (or is the empty literal) -/
def tailOK (t : List Generated.Piece) : Bool :=
  match t.getLast? with
  | some (.lit s) => (s.isEmpty && t.length == 1) || (match s.toList.getLast? with | some c => !isSpace c | none => false)
  | _ => false

/-- no literal piece contains LF -/
theorem server_literals_no_lf :
    ∀ s ∈ Generated.replySites, ∀ t ∈ s.texts, ∀ p ∈ t, pieceOK p = true := by decide

/-- the call sites whose text can end in interpolated (non-literal) material are exactly these; each
    is discussed in the header of harness/props/c06.py — `Server.mlst` (`s` ends in `path.name`) is
    the one whose tail is client-controlled and not stable under `rstrip()` -/
theorem server_hole_tailed_sites :
    ((Generated.replySites.filter fun s => !(s.texts.all tailOK)).map (·.fn)).eraseDups =
      ["ConnectionConditions.__call__", "PathConditions.__call__", "Server.user", "Server.mlst",
       "Server.pasv", "Server.rest"] := by decide

/-! ### what is excluded, witnessed -/

def mlstRep : Rep := ⟨"250".toList, ["start".toList, "Type=dir; x ".toList, "end".toList], true⟩

example : InDomain .utf8 mlstRep := by
  refine ⟨⟨rfl, by decide⟩, Encodable.utf8 _, by decide, ?_⟩
  intro l hl
  exact ⟨Encodable.utf8 _, by revert l hl; decide⟩

/-- **trailing_whitespace_lost** (defect of the pinned tree, finding C06-F1).  The reply the server
    writes for `MLST "x /"` after `MKD "x /"` — the listing line ends in the name `x ` — is decoded
    with the final blank removed: the decoded text lines differ from the encoded ones. -/
theorem trailing_whitespace_lost :
    (parseResponse .utf8 (splitLines (wire .utf8 mlstRep).flatten)).1 =
        .ok ("250".toList, ["-start".toList, " Type=dir; x".toList, " end".toList]) ∧
    (infoOf mlstRep.lines mlstRep.list).map (List.drop 1) ≠ mlstRep.lines := by
  decide +kernel

/-- so the full-strength round trip (identity on *all* line contents) is false -/
theorem roundtrip_not_identity :
    ¬ ∀ (enc : Encoding) (r : Rep), InDomain enc r →
      (infoOf r.lines r.list).map (List.drop 1) = r.lines := by
  intro h
  exact trailing_whitespace_lost.2 (h .utf8 mlstRep (by
    refine ⟨⟨rfl, by decide⟩, Encodable.utf8 _, by decide, ?_⟩
    intro l hl
    exact ⟨Encodable.utf8 _, by revert l hl; decide⟩))

/-- outside the domain, a code that is not three digits: the reply is not terminated by its own
    last line and swallows the next reply (StatusCodeError on the *following* header) -/
example : (parseN .utf8 1 (splitLines
      ((wire .utf8 ⟨"25".toList, ["x".toList], false⟩).flatten ++ (wire .utf8 ⟨"220".toList, ["next".toList], false⟩).flatten))).1 =
    [.error (.statusCode ["25 ".toList] "220".toList ["x".toList, " next".toList])] := by decide +kernel

/-- outside the domain, a line containing LF: the text after it is read as a line of its own -/
example : (parseN .utf8 2 (splitLines (wire .utf8 ⟨"250".toList, ["s".toList, "a\n250 e".toList, "e".toList], true⟩).flatten)).1 =
    [.ok ("250".toList, ["-s".toList, " a".toList, " e".toList]), .ok ("250".toList, [" e".toList])] := by decide +kernel

/-- outside the domain, list mode with a single line: `head, *body, tail = lines` raises ValueError
    before anything is written -/
example : writeResponse .utf8 "250".toList (.one "x".toList) true = ([], some .valueError) := by decide +kernel

/-- without its leading blank a body line *would* be a header: the blank is what protects it -/
example : (parseResponse .utf8 (splitLines (ascii "250-start\r\n250 fake\r\n250 end\r\n"))).1 =
    .ok ("250".toList, ["-start".toList, " fake".toList]) := by decide +kernel

/-! ### non-vacuity: a non-trivial instance of every hypothesis -/

def rep1 : Rep := ⟨"257".toList, ["start".toList, "257 look-alike".toList, "".toList, "-é".toList, "end".toList], true⟩

theorem rep1_inDomain : InDomain .latin1 rep1 := by
  refine ⟨⟨rfl, by decide⟩, by decide, by decide, ?_⟩
  intro l hl
  revert l hl
  decide

example : (∀ l ∈ rep1.lines, rstrip l = l) := by decide +kernel

/-- the round trip on it, through a byte-wise segmentation, with a following reply as `tail` -/
example : parseResponse .latin1 (readlines (((wire .latin1 rep1).flatten ++ ascii "220 x\r\n").map (fun b => [b])))
    = (.ok ("257".toList, ["-start".toList, " 257 look-alike".toList, "".toList, " -é".toList, " end".toList]),
       [ascii "220 x\r\n"]) := by decide +kernel

/-- hypotheses of `mismatch_rejected` -/
example : InDomain .utf8 ⟨"250".toList, "a".toList :: [] ++ ["b".toList], false⟩ ∧ Encodable .utf8 "251 b".toList ∧
    isDigit ((rstrip "251 b".toList).take 3) = true ∧ (rstrip "251 b".toList).take 3 ≠ "250".toList := by
  refine ⟨⟨⟨rfl, by decide⟩, Encodable.utf8 _, by decide, ?_⟩, Encodable.utf8 _, by decide, by decide⟩
  intro l hl
  exact ⟨Encodable.utf8 _, by revert l hl; decide⟩

/-- hypotheses of `command_loop_spec` : 150 is waited for, 226 decides -/
example : ["1xx".toList].any (codeMatches "150".toList) = true ∧ ["1xx".toList].any (codeMatches "226".toList) = false := by
  decide +kernel

/-- hypotheses of `parse_command_spec` -/
example : ' ' ∉ "MkD".toList ∧ rstrip "a b".toList = "a b".toList ∧ "a b".toList ≠ [] ∧
    (parseCommand .utf8 [ascii "MkD a b  \r\n"]).1 = .ok ("mkd".toList, "a b".toList) := by decide +kernel

end C06
