/-
  C13  Backend failures are contained: 451, data channel closed, session lives on.

  Programs are built from the regenerated decorator stacks plus the transcribed bodies (Model/Faults.lean).
  `fault_contained` : for EVERY verb, every shape (any number of directory entries / data blocks, offset or
  not) and every backend-call index k, the command's last reply is 451, no 2xx reply is ever queued, at most
  one 1xx mark.  `fault_closes_data` : if the 1xx mark was given, the data connection is closed — for every
  failing call, the `open` of a file transfer included (finding F6, repaired in /repo a864f95: the workers now
  enter the stream before the file; the order is read off the source as `Generated.Verb.workerContexts`, and
  `context_order_matters` shows the same statement is false for the old order).
-/
import AioftpModel.Model.Faults
import AioftpModel.Model.ExcFunnel

namespace C13
open Model Model.Faults Generated

/-! ### generic facts about `exec` -/

theorem exec_append (k : Option Nat) (p q : List Seg) (s : St) :
    exec k (p ++ q) s = exec k q (exec k p s) := by
  simp [exec, List.foldl_append]

theorem stepSeg_faulted (k : Option Nat) (s : St) (seg : Seg) (h : s.faulted.isSome = true) :
    stepSeg k s seg = s := by
  simp [stepSeg, h]

theorem exec_faulted (k : Option Nat) (p : List Seg) (s : St) (h : s.faulted.isSome = true) :
    exec k p s = s := by
  induction p generalizing s with
  | nil => rfl
  | cons a t ih =>
    simp only [exec, List.foldl_cons] at ih ⊢
    rw [stepSeg_faulted k s a h]
    exact ih s h

/-- invariant 1: replies queued so far contain no success code, unless the program has finished
    unfaulted; once faulted the last reply is 451 -/
def NoSuccessYet (s : St) : Prop := ∀ c ∈ s.replies, isSuccess c = false

def FaultShape (s : St) : Prop :=
  s.faulted.isSome = true → s.replies.getLast? = some 451

theorem unwind_shape (s : St) (c : Call) (h : NoSuccessYet s) :
    NoSuccessYet (unwind s c) ∧ FaultShape (unwind s c) := by
  constructor
  · intro x hx
    simp only [unwind, List.mem_append, List.mem_singleton] at hx
    rcases hx with hx | hx
    · exact h x hx
    · subst hx; decide
  · intro _
    simp [unwind]

/-- a segment is *harmless* when it is not a success reply -/
def harmless : Seg → Bool
  | .reply c => !isSuccess c
  | _ => true

theorem stepSeg_noSuccess (k : Option Nat) (s : St) (seg : Seg) (hs : NoSuccessYet s) (hh : harmless seg = true) :
    NoSuccessYet (stepSeg k s seg) := by
  unfold stepSeg
  split
  · exact hs
  · cases seg with
    | call c =>
      simp only []
      split
      · exact (unwind_shape _ c (by simpa [NoSuccessYet] using hs)).1
      · simpa [NoSuccessYet] using hs
    | reply c =>
      intro x hx
      simp only [List.mem_append, List.mem_singleton] at hx
      rcases hx with hx | hx
      · exact hs x hx
      · subst hx; simpa [harmless] using hh
    | takeData => simpa [NoSuccessYet] using hs
    | enterFile => simpa [NoSuccessYet] using hs
    | enterStream => simpa [NoSuccessYet] using hs
    | exitStream => simpa [NoSuccessYet] using hs
    | exitFile => simpa [NoSuccessYet] using hs

theorem exec_noSuccess (k : Option Nat) (p : List Seg) (s : St) (hs : NoSuccessYet s)
    (hp : ∀ seg ∈ p, harmless seg = true) : NoSuccessYet (exec k p s) := by
  induction p generalizing s with
  | nil => exact hs
  | cons a t ih =>
    simp only [exec, List.foldl_cons]
    exact ih _ (stepSeg_noSuccess k s a hs (hp a (by simp))) (fun x hx => hp x (by simp [hx]))

theorem stepSeg_faultShape (k : Option Nat) (s : St) (seg : Seg) (hs : FaultShape s) :
    FaultShape (stepSeg k s seg) := by
  unfold stepSeg
  split
  · exact hs
  · rename_i hnf
    cases seg with
    | call c =>
      simp only []
      split
      · intro _; simp [unwind]
      · intro h; simp at hnf; simp [hnf] at h
    | reply c => intro h; simp at hnf; simp [hnf] at h
    | takeData => intro h; simp at hnf; simp [hnf] at h
    | enterFile => intro h; simp at hnf; simp [hnf] at h
    | enterStream => intro h; simp at hnf; simp [hnf] at h
    | exitStream => intro h; simp at hnf; simp [hnf] at h
    | exitFile => intro h; simp at hnf; simp [hnf] at h

theorem exec_faultShape (k : Option Nat) (p : List Seg) (s : St) (hs : FaultShape s) :
    FaultShape (exec k p s) := by
  induction p generalizing s with
  | nil => exact hs
  | cons a t ih =>
    simp only [exec, List.foldl_cons]
    exact ih _ (stepSeg_faultShape k s a hs)

/-- number of backend calls in a program -/
def ncalls (p : List Seg) : Nat := (backendCalls p).length

theorem ncalls_cons_call (c : Call) (t : List Seg) : ncalls (.call c :: t) = ncalls t + 1 := by
  simp [ncalls, backendCalls]

/-- a fault index inside the program does fault -/
theorem exec_faults (k : Nat) (p : List Seg) (s : St) (hnf : s.faulted = none)
    (hk : s.calls ≤ k) (hlt : k < s.calls + ncalls p) : (exec (some k) p s).faulted.isSome = true := by
  induction p generalizing s with
  | nil => simp [ncalls, backendCalls] at hlt; omega
  | cons a t ih =>
    simp only [exec, List.foldl_cons]
    cases a with
    | call c =>
      by_cases hkc : k = s.calls
      · have : (stepSeg (some k) s (.call c)).faulted.isSome = true := by
          simp [stepSeg, hnf, hkc, unwind]
        have := exec_faulted (some k) t _ this
        simp only [exec] at this
        rw [this]; assumption
      · have hstep : stepSeg (some k) s (.call c) = { s with calls := s.calls + 1 } := by
          simp [stepSeg, hnf, hkc]
        rw [hstep]
        apply ih
        · exact hnf
        · simp; omega
        · rw [ncalls_cons_call] at hlt; simp; omega
    | reply c =>
      have : ncalls (.reply c :: t) = ncalls t := by simp [ncalls, backendCalls]
      rw [this] at hlt
      exact ih _ (by simp [stepSeg, hnf]) (by simpa [stepSeg, hnf] using hk) (by simpa [stepSeg, hnf] using hlt)
    | takeData =>
      have : ncalls (.takeData :: t) = ncalls t := by simp [ncalls, backendCalls]
      rw [this] at hlt
      exact ih _ (by simp [stepSeg, hnf]) (by simpa [stepSeg, hnf] using hk) (by simpa [stepSeg, hnf] using hlt)
    | enterFile =>
      have : ncalls (.enterFile :: t) = ncalls t := by simp [ncalls, backendCalls]
      rw [this] at hlt
      exact ih _ (by simp [stepSeg, hnf]) (by simpa [stepSeg, hnf] using hk) (by simpa [stepSeg, hnf] using hlt)
    | enterStream =>
      have : ncalls (.enterStream :: t) = ncalls t := by simp [ncalls, backendCalls]
      rw [this] at hlt
      exact ih _ (by simp [stepSeg, hnf]) (by simpa [stepSeg, hnf] using hk) (by simpa [stepSeg, hnf] using hlt)
    | exitStream =>
      have : ncalls (.exitStream :: t) = ncalls t := by simp [ncalls, backendCalls]
      rw [this] at hlt
      exact ih _ (by simp [stepSeg, hnf]) (by simpa [stepSeg, hnf] using hk) (by simpa [stepSeg, hnf] using hlt)
    | exitFile =>
      have : ncalls (.exitFile :: t) = ncalls t := by simp [ncalls, backendCalls]
      rw [this] at hlt
      exact ih _ (by simp [stepSeg, hnf]) (by simpa [stepSeg, hnf] using hk) (by simpa [stepSeg, hnf] using hlt)

/-! ### the programs: only the very last segment is a success reply -/

theorem guardCalls_harmless (gs : List Guard) : ∀ seg ∈ guardCalls gs, harmless seg = true := by
  induction gs with
  | nil => simp [guardCalls]
  | cons g t ih =>
    cases g <;> simp only [guardCalls] <;> intro seg hseg
    · exact ih seg hseg
    · rcases List.mem_append.mp hseg with h | h
      · simp only [List.mem_map] at h
        obtain ⟨c, _, rfl⟩ := h
        rfl
      · exact ih seg h
    · exact ih seg hseg
    · exact ih seg hseg

/-- every program is `init ++ [reply final]` where `init` queues no success reply -/
theorem body_split (v : Verb) (sh : Shape) :
    ∃ init final, body v sh = init ++ [Seg.reply final] ∧ ∀ seg ∈ init, harmless seg = true := by
  cases v
  case list =>
    refine ⟨[.reply 150, .takeData, .enterStream] ++
      sh.entries.flatMap (fun _ => [Seg.call .listStep, .call .exists_, .call .stat]) ++
      [.call .listStep, .exitStream], 226, by simp [body, enters, exits, enterCtx, exitCtx, Verb.workerContexts], ?_⟩
    intro seg h
    simp only [List.mem_append, List.mem_flatMap, List.mem_cons, List.mem_singleton, List.not_mem_nil, or_false] at h
    rcases h with ((h | h | h) | ⟨_, _, (h | h | h)⟩) | (h | h) <;> subst h <;> rfl
  case mlsd =>
    refine ⟨[.reply 150, .takeData, .enterStream] ++
      sh.entries.flatMap (fun f => Seg.call .listStep :: mlsxCalls f) ++
      [.call .listStep, .exitStream], 200, by simp [body, enters, exits, enterCtx, exitCtx, Verb.workerContexts], ?_⟩
    intro seg h
    simp only [List.mem_append, List.mem_flatMap, List.mem_cons, List.mem_singleton, List.not_mem_nil, or_false] at h
    rcases h with ((h | h | h) | ⟨f, _, h⟩) | (h | h)
    any_goals (subst h; rfl)
    rcases h with h | h
    · subst h; rfl
    · unfold mlsxCalls at h
      simp only [List.mem_append, List.mem_cons, List.not_mem_nil, or_false] at h
      rcases h with (h | h | h) | h
      any_goals (subst h; rfl)
      split at h
      · simp at h
      · simp at h; subst h; rfl
  case retr =>
    refine ⟨[.reply 150, .takeData, .enterStream, .call .open_, .enterFile] ++
      (if sh.offset then [.call .seek] else []) ++ (List.replicate sh.blocks (Seg.call .read)) ++
      [.call .read, .call .close, .exitFile, .exitStream], 226, by simp [body, enters, exits, enterCtx, exitCtx, Verb.workerContexts], ?_⟩
    intro seg h
    simp only [List.mem_append, List.mem_cons, List.not_mem_nil, or_false, List.mem_replicate] at h
    rcases h with (((h | h | h | h | h) | h) | ⟨_, h⟩) | (h | h | h | h)
    any_goals (subst h; rfl)
    split at h
    · simp at h; subst h; rfl
    · simp at h
  case stor =>
    refine ⟨[.call .isDir, .reply 150, .takeData, .enterStream, .call .open_, .enterFile] ++
      (if sh.offset then [.call .seek] else []) ++ (List.replicate sh.blocks (Seg.call .write)) ++
      [.call .close, .exitFile, .exitStream], 226, by simp [body, enters, exits, enterCtx, exitCtx, Verb.workerContexts], ?_⟩
    intro seg h
    simp only [List.mem_append, List.mem_cons, List.not_mem_nil, or_false, List.mem_replicate] at h
    rcases h with (((h | h | h | h | h | h) | h) | ⟨_, h⟩) | (h | h | h)
    any_goals (subst h; rfl)
    split at h
    · simp at h; subst h; rfl
    · simp at h
  case appe =>
    refine ⟨[.call .isDir, .reply 150, .takeData, .enterStream, .call .open_, .enterFile] ++
      (if sh.offset then [.call .seek] else []) ++ (List.replicate sh.blocks (Seg.call .write)) ++
      [.call .close, .exitFile, .exitStream], 226, by simp [body, enters, exits, enterCtx, exitCtx, Verb.workerContexts], ?_⟩
    intro seg h
    simp only [List.mem_append, List.mem_cons, List.not_mem_nil, or_false, List.mem_replicate] at h
    rcases h with (((h | h | h | h | h | h) | h) | ⟨_, h⟩) | (h | h | h)
    any_goals (subst h; rfl)
    split at h
    · simp at h; subst h; rfl
    · simp at h
  case mlst =>
    refine ⟨mlsxCalls sh.targetIsFile, 250, by simp [body], ?_⟩
    intro seg h
    unfold mlsxCalls at h
    simp only [List.mem_append, List.mem_cons, List.not_mem_nil, or_false] at h
    rcases h with (h | h | h) | h
    any_goals (subst h; rfl)
    split at h
    · simp at h
    · simp at h; subst h; rfl
  case mkd => exact ⟨[.call .mkdir], 257, rfl, by simp [harmless]⟩
  case rmd => exact ⟨[.call .rmdir], 250, rfl, by simp [harmless]⟩
  case dele => exact ⟨[.call .unlink], 250, rfl, by simp [harmless]⟩
  case rnto => exact ⟨[.call .rename], 250, rfl, by simp [harmless]⟩
  all_goals exact ⟨[], _, rfl, by simp⟩

/-- **fault_contained.**  For every verb, every shape and every backend-call index `k` of the command's
    program: the command IS answered, its last reply is 451 and no success reply was queued
    (that at most one 1xx mark precedes it is `C05.one_final_reply`). -/
theorem fault_contained (v : Verb) (sh : Shape) (k : Nat) (hk : k < ncalls (program v sh)) :
    let s := run v sh (some k)
    s.replies.getLast? = some 451 ∧ (∀ c ∈ s.replies, isSuccess c = false) ∧
    s.faulted.isSome = true := by
  obtain ⟨init, final, hb, hinit⟩ := body_split v sh
  have hprog : program v sh = (guardCalls v.guards ++ init) ++ [Seg.reply final] := by
    simp [program, hb, List.append_assoc]
  have hpre : ∀ seg ∈ guardCalls v.guards ++ init, harmless seg = true := by
    intro seg h
    rcases List.mem_append.mp h with h | h
    · exact guardCalls_harmless _ seg h
    · exact hinit seg h
  have hcalls : ncalls (program v sh) = ncalls (guardCalls v.guards ++ init) := by
    rw [hprog]; simp [ncalls, backendCalls, List.filterMap_append]
  simp only [run]
  rw [hprog, exec_append]
  have hf : (exec (some k) (guardCalls v.guards ++ init) {}).faulted.isSome = true :=
    exec_faults k _ {} rfl (Nat.zero_le _) (by rw [hcalls] at hk; simpa using hk)
  rw [exec_faulted _ _ _ hf]
  have h1 := exec_faultShape (some k) (guardCalls v.guards ++ init) {} (by intro h; simp at h) hf
  have h2 := exec_noSuccess (some k) (guardCalls v.guards ++ init) {} (by intro c hc; simp at hc) hpre
  exact ⟨h1, h2, hf⟩

/-! ### the data connection of a failed transfer -/

/-- the data connection is in safe hands: its context is entered (so unwinding closes it) or it is closed -/
def Safe (s : St) : Prop := s.streamEntered = true ∨ s.dataClosed = true

def Good (s : St) : Prop :=
  (s.faulted.isSome = true → s.dataClosed = true) ∧ (s.faulted = none → Safe s)

theorem stepSeg_good (k : Option Nat) (s : St) (seg : Seg) (h : Good s) : Good (stepSeg k s seg) := by
  unfold stepSeg
  split
  · exact h
  · rename_i hnf
    have hn : s.faulted = none := by simpa using hnf
    have hs := h.2 hn
    cases seg with
    | call c =>
      simp only []
      split
      · constructor
        · intro _
          rcases hs with hs | hs <;> simp [unwind, hs]
        · intro hf; simp [unwind] at hf
      · exact ⟨fun hf => by simp [hn] at hf, fun _ => hs⟩
    | reply c => exact ⟨fun hf => by simp [hn] at hf, fun _ => hs⟩
    | takeData => exact ⟨fun hf => by simp [hn] at hf, fun _ => hs⟩
    | enterFile => exact ⟨fun hf => by simp [hn] at hf, fun _ => hs⟩
    | enterStream => exact ⟨fun hf => by simp [hn] at hf, fun _ => Or.inl rfl⟩
    | exitStream => exact ⟨fun hf => by simp [hn] at hf, fun _ => Or.inr rfl⟩
    | exitFile => exact ⟨fun hf => by simp [hn] at hf, fun _ => hs⟩

theorem exec_good (k : Option Nat) (p : List Seg) (s : St) (h : Good s) : Good (exec k p s) := by
  induction p generalizing s with
  | nil => exact h
  | cons a t ih =>
    simp only [exec, List.foldl_cons]
    exact ih _ (stepSeg_good k s a h)

def replyCodes (p : List Seg) : List Nat :=
  p.filterMap (fun s => match s with | .reply c => some c | _ => none)

theorem stepSeg_replies (k : Option Nat) (s : St) (seg : Seg) :
    ∀ c ∈ (stepSeg k s seg).replies, c ∈ s.replies ∨ c ∈ replyCodes [seg] ∨ c = 451 := by
  intro c hc
  unfold stepSeg at hc
  split at hc
  · exact Or.inl hc
  · cases seg with
    | call x =>
      simp only [] at hc
      split at hc
      · simp only [unwind, List.mem_append, List.mem_singleton] at hc
        rcases hc with hc | hc
        · exact Or.inl hc
        · exact Or.inr (Or.inr hc)
      · exact Or.inl hc
    | reply x =>
      simp only [List.mem_append, List.mem_singleton] at hc
      rcases hc with hc | hc
      · exact Or.inl hc
      · exact Or.inr (Or.inl (by simp [replyCodes, hc]))
    | takeData => exact Or.inl hc
    | enterFile => exact Or.inl hc
    | enterStream => exact Or.inl hc
    | exitStream => exact Or.inl hc
    | exitFile => exact Or.inl hc

theorem exec_replies (k : Option Nat) (p : List Seg) (s : St) :
    ∀ c ∈ (exec k p s).replies, c ∈ s.replies ∨ c ∈ replyCodes p ∨ c = 451 := by
  induction p generalizing s with
  | nil => intro c hc; exact Or.inl hc
  | cons a t ih =>
    intro c hc
    simp only [exec, List.foldl_cons] at hc
    rcases ih (stepSeg k s a) c hc with h | h | h
    · rcases stepSeg_replies k s a c h with h | h | h
      · exact Or.inl h
      · refine Or.inr (Or.inl ?_)
        simp only [replyCodes, List.filterMap_cons] at h ⊢
        cases a <;> simp_all
      · exact Or.inr (Or.inr h)
    · refine Or.inr (Or.inl ?_)
      simp only [replyCodes, List.filterMap_cons] at h ⊢
      cases a <;> simp_all
    · exact Or.inr (Or.inr h)

theorem replyCodes_guardCalls (gs : List Guard) : replyCodes (guardCalls gs) = [] := by
  induction gs with
  | nil => rfl
  | cons g t ih =>
    cases g <;> simp only [guardCalls] <;> try exact ih
    simp only [replyCodes, List.filterMap_append] at ih ⊢
    rw [ih]
    simp [List.filterMap_map]

def transferVerbs : List Verb := [.retr, .stor, .appe, .list, .mlsd]

theorem replyCodes_append (p q : List Seg) : replyCodes (p ++ q) = replyCodes p ++ replyCodes q := by
  simp [replyCodes, List.filterMap_append]

theorem replyCodes_mlsx (f : Bool) : replyCodes (mlsxCalls f) = [] := by cases f <;> rfl

/-- only transfer verbs ever queue the 150 mark -/
theorem mark_only_transfer (v : Verb) (sh : Shape) (k : Option Nat) (h : 150 ∈ (run v sh k).replies) :
    v ∈ transferVerbs := by
  rcases exec_replies k (program v sh) {} 150 h with h | h | h
  · simp at h
  · simp only [program, replyCodes_append, replyCodes_guardCalls, List.nil_append] at h
    cases v <;> simp only [body, replyCodes_append, replyCodes_mlsx] at h <;>
      first
        | (exact by decide)
        | (exfalso; revert h; decide)
  · simp at h

/-- **fault_closes_data.**  For every verb, shape and backend-call index: if the 1xx mark was given and a
    backend call failed — ANY call, the `open` of the file included — the data connection the worker took
    out of the session has been closed.  (The stream item is entered right after the connection is taken,
    before any backend call, so every later fault unwinds through its exit.) -/
theorem fault_closes_data (v : Verb) (sh : Shape) (k : Nat)
    (hmark : 150 ∈ (run v sh (some k)).replies)
    (hf : (run v sh (some k)).faulted.isSome = true) :
    (run v sh (some k)).dataClosed = true := by
  have hv := mark_only_transfer v sh (some k) hmark
  simp only [transferVerbs, List.mem_cons, List.not_mem_nil, or_false] at hv
  -- split each program as prefix ++ rest; after the prefix the stream context is entered
  rcases hv with rfl | rfl | rfl | rfl | rfl
  · -- RETR
    have hp : program .retr sh = [.call .exists_, .call .isFile, .reply 150, .takeData, .enterStream] ++
        ([.call .open_, .enterFile] ++ (if sh.offset then [.call .seek] else []) ++
        (List.replicate sh.blocks (Seg.call .read)) ++ [.call .read, .call .close, .exitFile, .exitStream, .reply 226]) := by
      simp [program, body, Verb.guards, guardCalls, callOfCond, enters, exits, enterCtx, exitCtx, Verb.workerContexts]
    simp only [run] at hmark hf ⊢
    rw [hp, exec_append] at hmark hf ⊢
    by_cases h0 : k = 0
    · subst h0; rw [exec_faulted _ _ _ (by decide)] at hmark; exact absurd hmark (by decide)
    by_cases h1 : k = 1
    · subst h1; rw [exec_faulted _ _ _ (by decide)] at hmark; exact absurd hmark (by decide)
    have hA : Good (exec (some k) [.call .exists_, .call .isFile, .reply 150, .takeData, .enterStream] {}) := by
      simp [exec, stepSeg, Good, Safe, h0, h1]
    exact (exec_good _ _ _ hA).1 hf
  · -- STOR
    have hp : program .stor sh = [.call .isDir, .reply 150, .takeData, .enterStream] ++
        ([.call .open_, .enterFile] ++ (if sh.offset then [.call .seek] else []) ++
        (List.replicate sh.blocks (Seg.call .write)) ++ [.call .close, .exitFile, .exitStream, .reply 226]) := by
      simp [program, body, Verb.guards, guardCalls, enters, exits, enterCtx, exitCtx, Verb.workerContexts]
    simp only [run] at hmark hf ⊢
    rw [hp, exec_append] at hmark hf ⊢
    by_cases h0 : k = 0
    · subst h0; rw [exec_faulted _ _ _ (by decide)] at hmark; exact absurd hmark (by decide)
    have hA : Good (exec (some k) [.call .isDir, .reply 150, .takeData, .enterStream] {}) := by
      simp [exec, stepSeg, Good, Safe, h0]
    exact (exec_good _ _ _ hA).1 hf
  · -- APPE
    have hp : program .appe sh = [.call .isDir, .reply 150, .takeData, .enterStream] ++
        ([.call .open_, .enterFile] ++ (if sh.offset then [.call .seek] else []) ++
        (List.replicate sh.blocks (Seg.call .write)) ++ [.call .close, .exitFile, .exitStream, .reply 226]) := by
      simp [program, body, Verb.guards, guardCalls, enters, exits, enterCtx, exitCtx, Verb.workerContexts]
    simp only [run] at hmark hf ⊢
    rw [hp, exec_append] at hmark hf ⊢
    by_cases h0 : k = 0
    · subst h0; rw [exec_faulted _ _ _ (by decide)] at hmark; exact absurd hmark (by decide)
    have hA : Good (exec (some k) [.call .isDir, .reply 150, .takeData, .enterStream] {}) := by
      simp [exec, stepSeg, Good, Safe, h0]
    exact (exec_good _ _ _ hA).1 hf
  · -- LIST
    have hp : program .list sh = [.call .exists_, .reply 150, .takeData, .enterStream] ++
        (sh.entries.flatMap (fun _ => [Seg.call .listStep, .call .exists_, .call .stat]) ++
        [.call .listStep, .exitStream, .reply 226]) := by
      simp [program, body, Verb.guards, guardCalls, callOfCond, enters, exits, enterCtx, exitCtx, Verb.workerContexts]
    simp only [run] at hmark hf ⊢
    rw [hp, exec_append] at hmark hf ⊢
    by_cases h0 : k = 0
    · subst h0; rw [exec_faulted _ _ _ (by decide)] at hmark; exact absurd hmark (by decide)
    have hA : Good (exec (some k) [.call .exists_, .reply 150, .takeData, .enterStream] {}) := by
      simp [exec, stepSeg, Good, Safe, h0]
    exact (exec_good _ _ _ hA).1 hf
  · -- MLSD
    have hp : program .mlsd sh = [.call .exists_, .reply 150, .takeData, .enterStream] ++
        (sh.entries.flatMap (fun f => Seg.call .listStep :: mlsxCalls f) ++
        [.call .listStep, .exitStream, .reply 200]) := by
      simp [program, body, Verb.guards, guardCalls, callOfCond, enters, exits, enterCtx, exitCtx, Verb.workerContexts]
    simp only [run] at hmark hf ⊢
    rw [hp, exec_append] at hmark hf ⊢
    by_cases h0 : k = 0
    · subst h0; rw [exec_faulted _ _ _ (by decide)] at hmark; exact absurd hmark (by decide)
    have hA : Good (exec (some k) [.call .exists_, .reply 150, .takeData, .enterStream] {}) := by
      simp [exec, stepSeg, Good, Safe, h0]
    exact (exec_good _ _ _ hA).1 hf

/-- a failing `open` in RETR / STOR on the current tree: mark, 451, data connection closed -/
theorem fault_in_open_closes_data :
    let r := run .retr {} (some 2)
    let s := run .stor {} (some 1)
    r.replies = [150, 451] ∧ r.faulted = some .open_ ∧ r.ownsData = true ∧ r.dataClosed = true ∧
    s.replies = [150, 451] ∧ s.faulted = some .open_ ∧ s.ownsData = true ∧ s.dataClosed = true := by
  decide

/-- **context_order_matters** (what finding F6 was): the same worker with the items the other way round —
    file entered first — leaves the data connection open when `open` fails. -/
theorem context_order_matters :
    let oldRetr : List Seg := [.call .exists_, .call .isFile, .reply 150, .takeData] ++
      ([Ctx.file, Ctx.stream].flatMap enterCtx) ++ [.call .read] ++ ([Ctx.stream, Ctx.file].flatMap exitCtx) ++ [.reply 226]
    let r := exec (some 2) oldRetr {}
    r.replies = [150, 451] ∧ r.faulted = some .open_ ∧ r.ownsData = true ∧ r.dataClosed = false := by
  decide

/-- a fault in a guard (before the mark) is answered 451 with no mark; a parked data connection is not touched -/
theorem guard_fault_no_mark : (run .retr {} (some 0)).replies = [451] ∧ (run .retr {} (some 0)).ownsData = false := by
  decide

/-! ### non-vacuity -/

/-- RETR of a 3-block file from an offset has 9 backend calls; the fault at the 6th (a `read`) closes the data
    connection, answers 150 then 451 -/
example :
    ncalls (program .retr { blocks := 3, offset := true }) = 9 ∧
    (run .retr { blocks := 3, offset := true } (some 5)).replies = [150, 451] ∧
    (run .retr { blocks := 3, offset := true } (some 5)).dataClosed = true ∧
    (run .retr { blocks := 3, offset := true } none).replies = [150, 226] := by decide

/-- MLSD of a directory with a file and a directory: 11 backend calls -/
example : backendCalls (program .mlsd { entries := [true, false] }) =
    [.exists_, .listStep, .exists_, .stat, .isFile, .listStep, .exists_, .stat, .isFile, .isDir, .listStep] := by
  decide

/-! ### where "a failing backend call raises PathIOError" comes from: the exception funnel -/

open Model.ExcFunnel in
/-- **fact_universal_exception**: as regenerated from `pathio.py`, the wrapper re-raises exactly `CancelledError`,
    `NotImplementedError` and `StopAsyncIteration` unchanged and turns every other `Exception` into `PathIOError` -/
theorem fact_universal_exception :
    Generated.PathIO.universalExceptionPassThrough = ["asyncio.CancelledError", "NotImplementedError", "StopAsyncIteration"] ∧
    Generated.PathIO.universalExceptionWrapsTheRest = true := by decide

/-- **fact_contexts_and_executor**: the file context's `__aexit__` returns nothing (it cannot swallow what the body of
    `async with stream, file` raised), and `_blocking_io` awaits the executor call and nothing else (no try, no
    shield: a cancelled caller is a cancelled call) -/
theorem fact_contexts_and_executor :
    Generated.PathIO.fileContextExitReturnsNothing = true ∧ Generated.PathIO.blockingIoPlainAwait = true := by decide

open Model.ExcFunnel in
/-- **backend_exception_is_451**: EVERY `Exception` a backend call raises - a timeout among them - other than the two
    the wrapper names (`NotImplementedError`, `StopAsyncIteration`: the library's own signals) reaches the dispatcher
    as `PathIOError` and is answered 451 with the session going on; nothing a backend raises as an `Exception` can end
    the session through this path.  (What then happens to the data connection: `fault_closes_data`.) -/
theorem backend_exception_is_451 (e : Exc) (he : e.isException = true) (h1 : e ≠ .notImplemented) (h2 : e ≠ .stopAsyncIteration) :
    fateNow e = .answered451 := by
  cases e <;> first | rfl | (exfalso; first | exact h1 rfl | exact h2 rfl | (revert he; decide))

open Model.ExcFunnel in
/-- a cancellation (ABOR, the session ending) is never turned into a 451: it propagates -/
theorem cancellation_is_not_a_fault : fateNow .cancelled = .propagates := by decide

open Model.ExcFunnel in
/-- **old_timeout_ended_the_session** (what seeded changes C05_K / C13_O do): with `TimeoutError` added to the classes
    re-raised unchanged, a backend time-out ends the session without a reply -/
theorem passing_timeouts_through_ends_the_session :
    dispatcherFate (universalException ["asyncio.CancelledError", "NotImplementedError", "StopAsyncIteration", "asyncio.TimeoutError"] true .timeout)
      = .sessionEnds := by decide

open Model.ExcFunnel in
example : Exc.timeout.isException = true ∧ fateNow .timeout = .answered451 ∧ fateNow .attributeError = .answered451 := by decide

end C13
