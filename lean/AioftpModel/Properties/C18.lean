/-
  C18  The shipped storage backends are interchangeable.

  Models: `Fs*` of `FsMem.lean` (MemoryPathIO), `Posix.*` of `FsPosix.lean` (what PathIO/AsyncPathIO reach
  through pathlib on Linux), both on the same flat tree, so the relation `R` between a Memory tree and a
  filesystem tree is equality of well-formed trees.  The FTP session is `Session.step` (Memory) and
  `SessionB.stepB Backend.posix` (the same transcription with the backend as a parameter;
  `stepB_mem_is_session_step` proves that the parametrised text on `Backend.mem` IS `Session.step`).

  `ftp_step_bisim` (every command gives the same replies, bytes, listing, session state and tree on both) holds
  for ALL configurations, trees, session states and events (root-aimed mutations aside, which the guards of
  the real server refuse before the backend is asked).  On the pinned tree it was FALSE in four regions
  (finding F7 a–d: `MemoryPathIO.rename` through a file, into itself, of a vanished source onto its own path;
  `_open("r+b")` creating a missing file); they are repaired in /repo and the old `rename`/`_open` are kept as
  `Fs.renameOld`/`Fs.openFileOld` for the witnesses.  POSIX semantics are modelled, not verified.
-/
import AioftpModel.Lemmas.Backends
import AioftpModel.Generated.PathIO
import AioftpModel.Lemmas.MemHandles
import AioftpModel.Lemmas.FsCensus

namespace C18
open Model Model.Fs Model.Backends Model.Session Model.SessionB Model.FsLemmas Py Generated

/-- the relation between the tree of a Memory server and the tree of a filesystem server:
    same names, same kinds, same file bytes — on the common flat representation: equality, plus the invariant -/
def R (m p : Fs) : Prop := m = p ∧ WF m

/-- a mutation aimed at the virtual root itself (outside the property; the models are not tied there) -/
def aimedAtRoot (s0 : SState) (v : Verb) (t : Path) : Bool :=
  ([Verb.mkd, .rmd, .dele, .rnfr, .rnto, .stor, .appe].contains v && t == []) ||
  (v == .rnto && s0.renameFrom == some [])

/-! ## the parametrised session model is the C05 model -/

theorem stepB_mem_is_session_step (cfg : Cfg) (w : World) (s : SState) (ev : Event) :
    stepB Backend.mem cfg w s ev = step cfg w s ev := stepB_mem cfg w s ev

/-! ## what finding F7 was: the old Memory `rename` / `_open` against the filesystem -/

def cfg1 : Cfg := ⟨[⟨none, none, ⟨1, []⟩, [], none⟩], none, false⟩

/-- a, a/k (file), f (file) -/
def tree1 : Fs := [(["a".toList], .dir), (["a".toList, "k".toList], .file [7]), (["f".toList], .file [1])]

def w1 : World := ⟨tree1, none, [none]⟩

theorem tree1_wf : WF tree1 := ⟨by decide, by decide, by decide⟩

/-- F7-a: rename `a` to `f/x` where `f` is a file: both fail, but the old Memory code had already detached `a`
    and everything below it; the filesystem fails cleanly -/
theorem old_rename_through_file :
    Fs.renameOld tree1 ["a".toList] ["f".toList, "x".toList] = ([(["f".toList], .file [1])], false) ∧
    Backend.posix.rename tree1 ["a".toList] ["f".toList, "x".toList] = (tree1, false) ∧
    Fs.rename tree1 ["a".toList] ["f".toList, "x".toList] = (tree1, false) := by decide

/-- F7-b: rename `a` to `a/sub`: the old Memory code "succeeded" and the directory was gone; POSIX refuses -/
theorem old_rename_into_itself :
    Fs.renameOld tree1 ["a".toList] ["a".toList, "sub".toList] = ([(["f".toList], .file [1])], true) ∧
    Backend.posix.rename tree1 ["a".toList] ["a".toList, "sub".toList] = (tree1, false) ∧
    Fs.rename tree1 ["a".toList] ["a".toList, "sub".toList] = (tree1, false) := by decide

/-- F7-c: `open("new", "r+b")`: the old Memory code created the file; POSIX refuses -/
theorem old_restart_creates :
    Fs.openFileOld tree1 ["new".toList] 3 = some (tree1 ++ [(["new".toList], .file [])], [], 0) ∧
    Backend.ofRes (Posix.openFile tree1 ["new".toList] 3) = none ∧
    Fs.openFile tree1 ["new".toList] 3 = none := by decide

/-- F7-d: rename of the vanished `g` onto its own path: the old Memory code compared the paths first and
    "succeeded"; POSIX refuses -/
theorem old_rename_vanished_same_path :
    Fs.renameOld tree1 ["g".toList] ["g".toList] = (tree1, true) ∧
    Backend.posix.rename tree1 ["g".toList] ["g".toList] = (tree1, false) ∧
    Fs.rename tree1 ["g".toList] ["g".toList] = (tree1, false) := by decide

/-- the four histories of the finding on the tree as it is now: same replies, same trees -/
theorem f7_histories_agree :
    let sa : SState := { user := some 0, logged := true, renameFrom := some ["a".toList] }
    let sg : SState := { user := some 0, logged := true, renameFrom := some ["g".toList] }
    let sr : SState := { user := some 0, logged := true, passive := true, dataConn := true, transferOffset := 3 }
    (step cfg1 w1 sa (.line "RNTO f/x".toList [])).2.2.replies = [451] ∧
    (step cfg1 w1 sa (.line "RNTO f/x".toList [])).1.fs = tree1 ∧
    (step cfg1 w1 sa (.line "RNTO a/sub".toList [])).2.2.replies = [451] ∧
    (step cfg1 w1 sa (.line "RNTO a/sub".toList [])).1.fs = tree1 ∧
    (step cfg1 w1 sg (.line "RNTO g".toList [])).2.2.replies = [451] ∧
    (bodyB Backend.mem cfg1 w1 sr .stor "new".toList ⟨0, ["new".toList]⟩ [9, 9]).2.2.replies = [150, 451] ∧
    (bodyB Backend.posix cfg1 w1 sr .stor "new".toList ⟨0, ["new".toList]⟩ [9, 9]).2.2.replies = [150, 451] := by
  decide

/-! ## what does hold -/

/-- **ftp_step_bisim** (full strength): for related trees and EVERY event, the Memory server (`Session.step`)
    and the filesystem server give the same replies, the same transferred bytes, the same listing, the same
    session state, and related trees. -/
theorem ftp_step_bisim (cfg : Cfg) (wm wp : World) (s : SState) (ev : Event)
    (hR : R wm.fs wp.fs) (hsf : wm.serverFree = wp.serverFree) (huf : wm.userFree = wp.userFree) :
    (step cfg wm s ev).2.2.replies = (stepB Backend.posix cfg wp s ev).2.2.replies ∧
    (step cfg wm s ev).2.2.data = (stepB Backend.posix cfg wp s ev).2.2.data ∧
    (step cfg wm s ev).2.2.listing = (stepB Backend.posix cfg wp s ev).2.2.listing ∧
    (step cfg wm s ev).2.1 = (stepB Backend.posix cfg wp s ev).2.1 ∧
    R (step cfg wm s ev).1.fs (stepB Backend.posix cfg wp s ev).1.fs := by
  have hw : wm = wp := by
    cases wm; cases wp
    simp only at hsf huf
    have := hR.1
    simp only at this
    subst this; subst hsf; subst huf; rfl
  subst hw
  have heq := stepB_posix_eq cfg wm hR.2 s ev
  rw [heq, stepB_mem]
  refine ⟨rfl, rfl, rfl, rfl, rfl, ?_⟩
  rw [← stepB_mem]
  exact stepB_wf mem_preservesWF cfg wm hR.2 s ev

/-- **ftp_run_bisim**: the same over whole histories of one session: replies, bytes and listings of every step
    agree and the trees stay related -/
theorem ftp_run_bisim (cfg : Cfg) (evs : List Event) (wm wp : World) (s : SState)
    (hR : R wm.fs wp.fs) (hsf : wm.serverFree = wp.serverFree) (huf : wm.userFree = wp.userFree) :
    (evs.foldl (fun (acc : World × SState × List Out) ev =>
        let r := step cfg acc.1 acc.2.1 ev; (r.1, r.2.1, acc.2.2 ++ [r.2.2])) (wm, s, [])).2 =
    (evs.foldl (fun (acc : World × SState × List Out) ev =>
        let r := stepB Backend.posix cfg acc.1 acc.2.1 ev; (r.1, r.2.1, acc.2.2 ++ [r.2.2])) (wp, s, [])).2 := by
  have hw : wm = wp := by
    cases wm; cases wp
    simp only at hsf huf
    have := hR.1
    simp only at this
    subst this; subst hsf; subst huf; rfl
  subst hw
  have key : ∀ (evs : List Event) (w : World) (s : SState) (outs : List Out), WF w.fs →
      evs.foldl (fun (acc : World × SState × List Out) ev =>
        let r := step cfg acc.1 acc.2.1 ev; (r.1, r.2.1, acc.2.2 ++ [r.2.2])) (w, s, outs) =
      evs.foldl (fun (acc : World × SState × List Out) ev =>
        let r := stepB Backend.posix cfg acc.1 acc.2.1 ev; (r.1, r.2.1, acc.2.2 ++ [r.2.2])) (w, s, outs) := by
    intro evs
    induction evs with
    | nil => intros; rfl
    | cons e t ih =>
      intro w s outs hwf
      simp only [List.foldl_cons]
      have heq := stepB_posix_eq cfg w hwf s e
      rw [stepB_mem] at heq
      rw [heq]
      apply ih
      rw [← stepB_mem]
      exact stepB_wf mem_preservesWF cfg w hwf s e
  rw [key evs wm s [] hR.2]

/-- non-vacuity: a rename of a non-empty directory succeeds on both backends and moves the subtree -/
example :
    let s : SState := { user := some 0, logged := true, renameFrom := some ["a".toList] }
    let ev := Event.line "RNTO b".toList []
    (step cfg1 w1 s ev).2.2.replies = [250] ∧
    (stepB Backend.posix cfg1 w1 s ev).2.2.replies = [250] ∧
    (stepB Backend.posix cfg1 w1 s ev).1.fs =
      [(["f".toList], .file [1]), (["b".toList], .dir), (["b".toList, "k".toList], .file [7])] := by
  decide

/-- … and so is an upload with a restart offset into an existing file -/
example :
    let s : SState := { user := some 0, logged := true, passive := true, dataConn := true, restartOffset := 3 }
    let ev := Event.line "STOR f".toList [9, 9]
    (stepB Backend.posix cfg1 w1 s ev).2.2.replies = [150, 226] ∧
    lookup (stepB Backend.posix cfg1 w1 s ev).1.fs ["f".toList] = some (.file [1, 0, 0, 9, 9]) := by
  decide

/-! ## a failed command changes nothing -/

/-- **failed_changes_nothing_posix** (full strength): whatever the event, if some reply is 4xx/5xx the tree of
    the filesystem server is what it was -/
theorem failed_changes_nothing_posix (cfg : Cfg) (w : World) (s : SState) (ev : Event)
    (hf : failedOut (stepB Backend.posix cfg w s ev).2.2 = true) :
    (stepB Backend.posix cfg w s ev).1.fs = w.fs :=
  stepB_failed cfg w s ev (fun _ _ t src _ _ _ hok => posix_rename_false w.fs src t hok) hf

/-- **failed_changes_nothing_mem** (full strength; on the pinned tree `RNTO` through a file answered 451 and
    had removed the source subtree, F7-a): whatever the event, if some reply is 4xx/5xx the Memory tree is what
    it was -/
theorem failed_changes_nothing_mem (cfg : Cfg) (w : World) (s : SState) (ev : Event)
    (hf : failedOut (step cfg w s ev).2.2 = true) : (step cfg w s ev).1.fs = w.fs := by
  rw [← stepB_mem] at hf ⊢
  apply stepB_failed cfg w s ev _ hf
  intro v s0 t src _ _ _ hok
  exact mem_rename_false w.fs src t hok

example : failedOut (stepB Backend.posix cfg1 w1 { user := some 0, logged := true } (Event.line "RMD a".toList [])).2.2
    = true := by decide

/-! ## the tree invariant -/

/-- every ancestor of an entry is a directory, nothing lies below a file -/
theorem wf_meaning {fs : Fs} (h : WF fs) {p : Path} {e : Entry} (hl : lookup fs p = some e) (i : Nat)
    (hi : i < p.length) : isDir fs (p.take i) = true ∧ isFile fs (p.take i) = false :=
  ⟨h.isDir_take_of_lookup hl i hi, h.no_child_of_file hl i hi rfl⟩

/-- **wf_preserved_mem**: every Memory operation keeps the invariant (also the ones that fail half-way) -/
theorem wf_preserved_mem {fs : Fs} (h : WF fs) :
    (∀ p par eok fs', MemApi.mkdir fs p par eok = some fs' → WF fs') ∧
    (∀ p fs', Fs.mkdirParents fs p = some fs' → WF fs') ∧
    (∀ p fs', Fs.rmdir fs p = some fs' → WF fs') ∧
    (∀ p fs', Fs.unlink fs p = some fs' → WF fs') ∧
    (∀ src dst, WF (Fs.rename fs src dst).1) ∧
    (∀ p m fs' c pos, Fs.openFile fs p m = some (fs', c, pos) → WF fs') ∧
    (∀ p m sk act, WF (MemApi.fileOp fs p m sk act).1) :=
  ⟨fun _ _ _ _ hr => wf_mem_mkdir h hr, fun _ _ hr => wf_mem_mkdirParents h hr, fun _ _ hr => wf_mem_rmdir h hr,
   fun _ _ hr => wf_mem_unlink h hr, fun s d => wf_mem_rename h s d,
   fun _ _ _ _ _ hr => (wf_mem_openFile h hr).1, fun p m sk act => wf_mem_fileOp h p m sk act⟩

/-- **wf_preserved_posix** -/
theorem wf_preserved_posix {fs : Fs} (h : WF fs) :
    (∀ p par eok fs', Posix.mkdir fs p par eok = .ok fs' → WF fs') ∧
    (∀ p fs', Posix.rmdir fs p = .ok fs' → WF fs') ∧
    (∀ p fs', Posix.unlink fs p = .ok fs' → WF fs') ∧
    (∀ src dst fs', Posix.rename fs src dst = .ok fs' → WF fs') ∧
    (∀ p m fs' c pos, Posix.openFile fs p m = .ok (fs', c, pos) → WF fs') ∧
    (∀ p m sk act, WF (Posix.fileOp fs p m sk act).1) :=
  ⟨fun _ _ _ _ hr => wf_posix_mkdir h hr, fun _ _ hr => wf_posix_rmdir h hr, fun _ _ hr => wf_posix_unlink h hr,
   fun _ _ _ hr => wf_posix_rename h hr, fun _ _ _ _ _ hr => (wf_posix_openFile h hr).1,
   fun p m sk act => wf_posix_fileOp h p m sk act⟩

/-- **step_preserves_wf**: whatever the event (inside the four regions too), on either backend -/
theorem step_preserves_wf (cfg : Cfg) (w : World) (s : SState) (ev : Event) (h : WF w.fs) :
    WF (step cfg w s ev).1.fs ∧ WF (stepB Backend.posix cfg w s ev).1.fs := by
  constructor
  · rw [← stepB_mem]; exact stepB_wf mem_preservesWF cfg w h s ev
  · exact stepB_wf posix_preservesWF cfg w h s ev

example : WF tree1 ∧ ¬ WF [(["a".toList, "b".toList], Entry.dir)] := by
  refine ⟨tree1_wf, fun h => ?_⟩
  have := h.parent _ (List.mem_singleton.mpr rfl)
  revert this; decide

/-! ## operation by operation: where the two backends agree (under the invariant) -/

theorem ops_agree {fs : Fs} (h : WF fs) (p : Path) :
    Posix.exists_ fs p = exists_ fs p ∧ Posix.isDir fs p = isDir fs p ∧ Posix.isFile fs p = isFile fs p ∧
    Backend.ofRes (Posix.mkdir fs p true false) = Fs.mkdirParents fs p ∧
    Backend.ofRes (Posix.rmdir fs p) = Fs.rmdir fs p ∧
    Backend.ofRes (Posix.unlink fs p) = Fs.unlink fs p ∧
    Posix.list fs p = children fs p :=
  ⟨posix_exists_eq h p, posix_isDir_eq h p, posix_isFile_eq h p, posix_mkdirParents_eq h p, posix_rmdir_eq h p,
   posix_unlink_eq h p, posix_list_eq h p⟩

/-- `open` agrees for every path and mode -/
theorem open_agrees {fs : Fs} (h : WF fs) (p : Path) (mode : Nat) :
    Backend.ofRes (Posix.openFile fs p mode) = Fs.openFile fs p mode := posix_openFile_eq h p mode

/-- `rename` to a path that does not exist (what RNTO's guard ensures) agrees for every source and destination -/
theorem rename_agrees {fs : Fs} (h : WF fs) (src dst : Path) (hdst : lookup fs dst = none) :
    Backend.posix.rename fs src dst = Fs.rename fs src dst := posix_rename_eq h src dst hdst

/-! ## PathIO and AsyncPathIO are the same code (tables regenerated from the live source) -/

open Generated.PathIO in
/-- the executor plumbing of `AsyncPathIO` -/
def stripExecutor (m : BackendMethod) : BackendMethod :=
  { m with decos := m.decos.filter (fun d => d != .withTimeout && d != .blockingIo) }

open Generated.PathIO in
/-- **fs_backends_same_bodies**: method by method, `AsyncPathIO` has the signature, the body and the remaining
    decorators of `PathIO` -/
theorem fs_backends_same_bodies : asyncPathioMethods.map stripExecutor = pathioMethods := by decide

open Generated.PathIO in
/-- … and every `AsyncPathIO` method runs `with_timeout(_blocking_io(body))` innermost -/
theorem async_methods_run_in_executor :
    asyncPathioMethods.all (fun m => m.decos.drop (m.decos.length - 2) == [.withTimeout, .blockingIo]) = true := by
  decide

open Generated.PathIO in
example : pathioMethods.length = 14 := by decide

/-! ## a rename conserves what the tree holds; a directory cannot go below itself -/

/-- **fact_memory_rename_guards**: as regenerated from `pathio.py`, `MemoryPathIO.rename` refuses - before it changes
    anything, in this order - a missing source, a missing destination parent, a destination parent that is no
    directory, and a source that is among the destination's parents at any depth: the guards of `Fs.rename` -/
theorem fact_memory_rename_guards : Generated.PathIO.memoryRenameGuardsAsModelled = true := by decide

/-- **rename_conserves_the_tree**: on EVERY well-formed tree, a rename onto a free name that succeeds leaves the same
    files, byte for byte, and the same number of directories: the entries after are a permutation of the entries
    before - nothing is lost, nothing invented, only names change (also: `wf_preserved_mem`) -/
theorem rename_conserves_the_tree {fs : Fs} (h : WF fs) (src dst : Path) (hdst : lookup fs dst = none)
    (hok : (Fs.rename fs src dst).2 = true) :
    ((Fs.rename fs src dst).1.map (·.2)).Perm (fs.map (·.2)) :=
  rename_census h src dst hdst hok

/-- **rename_below_itself_refused**: a directory cannot be moved to a place below itself, however deep, through
    existing directories or not: refused, and the tree is what it was -/
theorem rename_below_itself_refused (fs : Fs) (src dst : Path) (hp : src <+: dst) (hne : src ≠ dst) :
    Fs.rename fs src dst = (fs, false) :=
  Model.FsLemmas.rename_below_itself_refused fs src dst hp hne

/-- the premises are met: a directory with a file in it moves under another directory; two levels below itself it does not -/
example :
    let fs : Fs := [(["a".toList], .dir), (["a".toList, "b".toList], .dir), (["a".toList, "f".toList], .file [1, 2]), (["c".toList], .dir)]
    (Fs.rename fs ["a".toList] ["c".toList, "moved".toList]).2 = true ∧
    lookup fs ["c".toList, "moved".toList] = none ∧
    lookup (Fs.rename fs ["a".toList] ["c".toList, "moved".toList]).1 ["c".toList, "moved".toList, "f".toList] = some (.file [1, 2]) ∧
    Fs.rename fs ["a".toList] ["a".toList, "b".toList, "deeper".toList] = (fs, false) := by decide

/-! ## several transfers of one file at the same time (finding F19)

  On the filesystem backends every `open` is a descriptor of its own.  `MemoryPathIO` used to hand the node's single
  `BytesIO` to every opener; `Model.MemHandles` is the node with any number of open files under an arbitrary schedule
  of opens, block reads and anything else that moves the shared object's position. -/

/-- **fact_memory_file_own_position**: as regenerated from `pathio.py`, `_open` returns a fresh `MemoryFile` on
    every path, and its `seek`/`read`/`write` work from the file's own position -/
theorem fact_memory_file_own_position : Generated.PathIO.memoryFileOwnPosition = true := by decide

open Model.MemHandles in
/-- **concurrent_readers_get_prefixes**: under EVERY schedule, what a reader has received so far is the part of the
    file from where it started to where it is - nothing skipped, nothing repeated, nothing of another reader's -/
theorem concurrent_readers_get_prefixes (content : Model.MemHandles.Bytes) (evs : List Ev) (h : Nat) :
    (runNow content evs).got h
      = (content.drop ((runNow content evs).start h)).take ((runNow content evs).pos h - (runNow content evs).start h) := by
  unfold runNow; rw [fact_memory_file_own_position]
  exact (run_inv content evs init (init_inv content)).exact h

open Model.MemHandles in
/-- **concurrent_readers_get_the_file**: under EVERY schedule, a reader that has seen the end (an empty block) has
    received the whole file from its restart offset on - what the same `RETR` gives on the filesystem backends -/
theorem concurrent_readers_get_the_file (content : Model.MemHandles.Bytes) (evs : List Ev) (h : Nat)
    (hd : (runNow content evs).done h = true) :
    (runNow content evs).got h = content.drop ((runNow content evs).start h) := by
  have hi : Inv content (runNow content evs) := by
    unfold runNow; rw [fact_memory_file_own_position]; exact run_inv content evs init (init_inv content)
  rw [hi.exact h]
  apply List.take_of_length_le
  have := hi.fin h hd
  have := hi.ord h
  rw [List.length_drop]; omega

open Model.MemHandles in
/-- the premises are met by a non-trivial schedule: two readers in turn, the second one from offset 2, a poke between -/
example :
    let s := runNow [10, 11, 12, 13, 14] [.open 0 0, .read 0 2, .open 1 2, .read 1 2, .poke 0, .read 0 2, .read 1 2,
      .read 0 2, .read 1 2, .read 0 2]
    s.done 0 = true ∧ s.done 1 = true ∧ s.got 0 = [10, 11, 12, 13, 14] ∧ s.got 1 = [12, 13, 14] := by decide

open Model.MemHandles in
/-- **old_shared_position_truncates**: with the one shared position of the pinned tree the same kind of schedule
    ends a reader early: reader 0 sees the end after 2 of 5 bytes, because reader 1 read the rest meanwhile -/
theorem old_shared_position_truncates :
    let s := run false [10, 11, 12, 13, 14] init [.open 0 0, .read 0 2, .open 1 0, .read 1 9, .read 1 9, .read 0 2]
    s.done 0 = true ∧ s.got 0 = [10, 11] ∧ s.got 1 = [10, 11, 12, 13, 14] := by decide

end C18
