/-
  C18  The shipped storage backends are interchangeable.

  Models: `Fs*` of `FsMem.lean` (MemoryPathIO), `Posix.*` of `FsPosix.lean` (what PathIO/AsyncPathIO reach
  through pathlib on Linux), both on the same flat tree, so the relation `R` between a Memory tree and a
  filesystem tree is equality of well-formed trees.  The FTP session is `Session.step` (Memory) and
  `SessionB.stepB Backend.posix` (the same transcription with the backend as a parameter;
  `stepB_mem_is_session_step` proves that the parametrised text on `Backend.mem` IS `Session.step`).

  `ftp_step_bisim` (every command gives the same replies, bytes and tree on both) is FALSE on the pinned tree:
  four witnesses (finding F7; the fourth region was found by the correspondence run of this check).
  `ftp_step_bisim_partial` holds for ALL configurations, trees, session states and events outside those four
  decidable regions.  POSIX semantics are modelled, not verified.
-/
import AioftpModel.Lemmas.Backends
import AioftpModel.Generated.PathIO

namespace C18
open Model Model.Fs Model.Backends Model.Session Model.SessionB Model.FsLemmas Py Generated

/-- the relation between the tree of a Memory server and the tree of a filesystem server:
    same names, same kinds, same file bytes — on the common flat representation: equality, plus the invariant -/
def R (m p : Fs) : Prop := m = p ∧ WF m

/-- a mutation aimed at the virtual root itself (outside the property; the models are not tied there) -/
def aimedAtRoot (s0 : SState) (v : Verb) (t : Path) : Bool :=
  ([Verb.mkd, .rmd, .dele, .rnfr, .rnto, .stor, .appe].contains v && t == []) ||
  (v == .rnto && s0.renameFrom == some [])

/-! ## the parametrised session model is the C05 model -/

theorem stepB_mem_is_session_step (cfg : Cfg) (w : World) (s : SState) (ev : Event) :
    stepB Backend.mem cfg w s ev = step cfg w s ev := stepB_mem cfg w s ev

/-! ## negative witnesses: `ftp_step_bisim` is false (finding F7) -/

def cfg1 : Cfg := ⟨[⟨none, none, ⟨1, []⟩, [], none⟩], none, false⟩

/-- a, a/k (file), f (file) -/
def tree1 : Fs := [(["a".toList], .dir), (["a".toList, "k".toList], .file [7]), (["f".toList], .file [1])]

def w1 : World := ⟨tree1, none, [none]⟩

theorem tree1_wf : WF tree1 := ⟨by decide, by decide, by decide⟩

/-- F7-a: `RNFR a` / `RNTO f/x` where `f` is a file: both answer 451, but Memory has lost `a` and everything
    below it; the filesystem backend fails cleanly. -/
theorem witness_rename_through_file :
    let s : SState := { user := some 0, logged := true, renameFrom := some ["a".toList] }
    let ev := Event.line "RNTO f/x".toList []
    let rm := step cfg1 w1 s ev
    let rp := stepB Backend.posix cfg1 w1 s ev
    rm.2.2.replies = [451] ∧ rp.2.2.replies = [451] ∧
    rm.1.fs = [(["f".toList], .file [1])] ∧ rp.1.fs = tree1 := by
  decide

/-- F7-b: `RNFR a` / `RNTO a/sub` : Memory answers 250 and the directory is gone; POSIX answers 451 (EINVAL) -/
theorem witness_rename_into_itself :
    let s : SState := { user := some 0, logged := true, renameFrom := some ["a".toList] }
    let ev := Event.line "RNTO a/sub".toList []
    let rm := step cfg1 w1 s ev
    let rp := stepB Backend.posix cfg1 w1 s ev
    rm.2.2.replies = [250] ∧ rp.2.2.replies = [451] ∧
    rm.1.fs = [(["f".toList], .file [1])] ∧ rp.1.fs = tree1 := by
  decide

/-- F7-c: `REST 3` / `STOR new`: mode "r+b" creates the file on Memory (zero-filled up to the offset);
    on POSIX the open fails: 150 then 451, nothing created -/
theorem witness_restart_creates :
    let s : SState := { user := some 0, logged := true, passive := true, dataConn := true, restartOffset := 3 }
    let ev := Event.line "STOR new".toList [9, 9]
    let rm := step cfg1 w1 s ev
    let rp := stepB Backend.posix cfg1 w1 s ev
    rm.2.2.replies = [150, 226] ∧ rp.2.2.replies = [150, 451] ∧
    rm.1.fs = tree1 ++ [(["new".toList], .file [0, 0, 0, 9, 9])] ∧ rp.1.fs = tree1 := by
  decide

/-- F7-d (found by this check): `RNFR g`, `g` vanishes, `RNTO g`: Memory compares the two paths, does nothing
    and answers 250; POSIX answers 451 (ENOENT) -/
theorem witness_rename_vanished_same_path :
    let s : SState := { user := some 0, logged := true, renameFrom := some ["g".toList] }
    let ev := Event.line "RNTO g".toList []
    let rm := step cfg1 w1 s ev
    let rp := stepB Backend.posix cfg1 w1 s ev
    rm.2.2.replies = [250] ∧ rp.2.2.replies = [451] ∧ rm.1.fs = tree1 ∧ rp.1.fs = tree1 := by
  decide

/-- the full-strength statement, as a proposition -/
def FtpStepBisim : Prop :=
  ∀ (cfg : Cfg) (wm wp : World) (s : SState) (ev : Event),
    R wm.fs wp.fs → wm.serverFree = wp.serverFree → wm.userFree = wp.userFree →
    regionAt aimedAtRoot s ev = false →
    (step cfg wm s ev).2.2.replies = (stepB Backend.posix cfg wp s ev).2.2.replies ∧
    (step cfg wm s ev).2.2.data = (stepB Backend.posix cfg wp s ev).2.2.data ∧
    R (step cfg wm s ev).1.fs (stepB Backend.posix cfg wp s ev).1.fs

/-- **ftp_step_bisim is false** on the pinned tree -/
theorem ftp_step_bisim_false : ¬ FtpStepBisim := by
  intro h
  have := h cfg1 w1 w1 { user := some 0, logged := true, renameFrom := some ["a".toList] }
    (Event.line "RNTO a/sub".toList []) ⟨rfl, tree1_wf⟩ rfl rfl (by decide)
  have hw := witness_rename_into_itself
  simp only at hw
  rw [hw.1, hw.2.1] at this
  exact absurd this.1 (by decide)

/-! ## what does hold -/

/-- **ftp_step_bisim_partial**: for related trees and EVERY event outside the four regions, the Memory server
    (`Session.step`) and the filesystem server give the same replies, the same transferred bytes, the same
    listing, the same session state, and related trees. -/
theorem ftp_step_bisim_partial (cfg : Cfg) (wm wp : World) (s : SState) (ev : Event)
    (hR : R wm.fs wp.fs) (hsf : wm.serverFree = wp.serverFree) (huf : wm.userFree = wp.userFree)
    (_hroot : regionAt aimedAtRoot s ev = false)
    (h1 : regionAt (throughFile wm.fs) s ev = false)
    (h2 : regionAt (intoItself wm.fs) s ev = false)
    (h3 : regionAt (restartCreates wm.fs) s ev = false)
    (h4 : regionAt samePath s ev = false) :
    (step cfg wm s ev).2.2.replies = (stepB Backend.posix cfg wp s ev).2.2.replies ∧
    (step cfg wm s ev).2.2.data = (stepB Backend.posix cfg wp s ev).2.2.data ∧
    (step cfg wm s ev).2.2.listing = (stepB Backend.posix cfg wp s ev).2.2.listing ∧
    (step cfg wm s ev).2.1 = (stepB Backend.posix cfg wp s ev).2.1 ∧
    R (step cfg wm s ev).1.fs (stepB Backend.posix cfg wp s ev).1.fs := by
  have hw : wm = wp := by
    cases wm; cases wp
    simp only at hsf huf
    have := hR.1
    simp only at this
    subst this; subst hsf; subst huf; rfl
  subst hw
  have heq := stepB_posix_eq cfg wm hR.2 s ev h1 h2 h3 h4
  rw [heq, stepB_mem]
  refine ⟨rfl, rfl, rfl, rfl, rfl, ?_⟩
  rw [← stepB_mem]
  exact stepB_wf mem_preservesWF cfg wm hR.2 s ev

/-- non-vacuity: a rename of a non-empty directory into another directory is outside every region, succeeds on
    both backends and moves the subtree -/
example :
    let s : SState := { user := some 0, logged := true, renameFrom := some ["a".toList] }
    let ev := Event.line "RNTO b".toList []
    regionAt aimedAtRoot s ev = false ∧ regionAt (throughFile tree1) s ev = false ∧
    regionAt (intoItself tree1) s ev = false ∧ regionAt (restartCreates tree1) s ev = false ∧
    regionAt samePath s ev = false ∧
    (stepB Backend.posix cfg1 w1 s ev).2.2.replies = [250] ∧
    (stepB Backend.posix cfg1 w1 s ev).1.fs =
      [(["f".toList], .file [1]), (["b".toList], .dir), (["b".toList, "k".toList], .file [7])] := by
  decide

/-- … and so is an upload with a restart offset into an existing file -/
example :
    let s : SState := { user := some 0, logged := true, passive := true, dataConn := true, restartOffset := 3 }
    let ev := Event.line "STOR f".toList [9, 9]
    regionAt (restartCreates tree1) s ev = false ∧
    (stepB Backend.posix cfg1 w1 s ev).2.2.replies = [150, 226] ∧
    lookup (stepB Backend.posix cfg1 w1 s ev).1.fs ["f".toList] = some (.file [1, 0, 0, 9, 9]) := by
  decide

/-! ## a failed command changes nothing -/

/-- **failed_changes_nothing_posix** (full strength): whatever the event, if some reply is 4xx/5xx the tree of
    the filesystem server is what it was -/
theorem failed_changes_nothing_posix (cfg : Cfg) (w : World) (s : SState) (ev : Event)
    (hf : failedOut (stepB Backend.posix cfg w s ev).2.2 = true) :
    (stepB Backend.posix cfg w s ev).1.fs = w.fs :=
  stepB_failed cfg w s ev (fun _ _ t src _ _ _ hok => posix_rename_false w.fs src t hok) hf

/-- the same statement for Memory is FALSE: `witness_rename_through_file` is a failed command (451) that
    removed a subtree -/
theorem failed_changes_nothing_mem_false :
    ¬ ∀ (cfg : Cfg) (w : World) (s : SState) (ev : Event),
      failedOut (step cfg w s ev).2.2 = true → (step cfg w s ev).1.fs = w.fs := by
  intro h
  have := h cfg1 w1 { user := some 0, logged := true, renameFrom := some ["a".toList] }
    (Event.line "RNTO f/x".toList []) (by decide)
  have hw := witness_rename_through_file
  simp only at hw
  rw [hw.2.2.1] at this
  exact absurd this (by decide)

/-- **failed_changes_nothing_mem_partial**: outside the rename-through-a-file region a failed command leaves
    the Memory tree as it was -/
theorem failed_changes_nothing_mem_partial (cfg : Cfg) (w : World) (s : SState) (ev : Event)
    (h1 : regionAt (throughFile w.fs) s ev = false)
    (hf : failedOut (step cfg w s ev).2.2 = true) : (step cfg w s ev).1.fs = w.fs := by
  rw [← stepB_mem] at hf ⊢
  apply stepB_failed cfg w s ev _ hf
  intro v s0 t src ht hv hrf hok
  apply mem_rename_false w.fs src t hok
  rintro ⟨a, b⟩
  simp only [regionAt, ht] at h1
  subst hv
  simp [throughFile, hrf, a, b] at h1

example : failedOut (stepB Backend.posix cfg1 w1 { user := some 0, logged := true } (Event.line "RMD a".toList [])).2.2
    = true := by decide

/-! ## the tree invariant -/

/-- every ancestor of an entry is a directory, nothing lies below a file -/
theorem wf_meaning {fs : Fs} (h : WF fs) {p : Path} {e : Entry} (hl : lookup fs p = some e) (i : Nat)
    (hi : i < p.length) : isDir fs (p.take i) = true ∧ isFile fs (p.take i) = false :=
  ⟨h.isDir_take_of_lookup hl i hi, h.no_child_of_file hl i hi rfl⟩

/-- **wf_preserved_mem**: every Memory operation keeps the invariant (also the ones that fail half-way) -/
theorem wf_preserved_mem {fs : Fs} (h : WF fs) :
    (∀ p par eok fs', MemApi.mkdir fs p par eok = some fs' → WF fs') ∧
    (∀ p fs', Fs.mkdirParents fs p = some fs' → WF fs') ∧
    (∀ p fs', Fs.rmdir fs p = some fs' → WF fs') ∧
    (∀ p fs', Fs.unlink fs p = some fs' → WF fs') ∧
    (∀ src dst, WF (Fs.rename fs src dst).1) ∧
    (∀ p m fs' c pos, Fs.openFile fs p m = some (fs', c, pos) → WF fs') ∧
    (∀ p m sk act, WF (MemApi.fileOp fs p m sk act).1) :=
  ⟨fun _ _ _ _ hr => wf_mem_mkdir h hr, fun _ _ hr => wf_mem_mkdirParents h hr, fun _ _ hr => wf_mem_rmdir h hr,
   fun _ _ hr => wf_mem_unlink h hr, fun s d => wf_mem_rename h s d,
   fun _ _ _ _ _ hr => (wf_mem_openFile h hr).1, fun p m sk act => wf_mem_fileOp h p m sk act⟩

/-- **wf_preserved_posix** -/
theorem wf_preserved_posix {fs : Fs} (h : WF fs) :
    (∀ p par eok fs', Posix.mkdir fs p par eok = .ok fs' → WF fs') ∧
    (∀ p fs', Posix.rmdir fs p = .ok fs' → WF fs') ∧
    (∀ p fs', Posix.unlink fs p = .ok fs' → WF fs') ∧
    (∀ src dst fs', Posix.rename fs src dst = .ok fs' → WF fs') ∧
    (∀ p m fs' c pos, Posix.openFile fs p m = .ok (fs', c, pos) → WF fs') ∧
    (∀ p m sk act, WF (Posix.fileOp fs p m sk act).1) :=
  ⟨fun _ _ _ _ hr => wf_posix_mkdir h hr, fun _ _ hr => wf_posix_rmdir h hr, fun _ _ hr => wf_posix_unlink h hr,
   fun _ _ _ hr => wf_posix_rename h hr, fun _ _ _ _ _ hr => (wf_posix_openFile h hr).1,
   fun p m sk act => wf_posix_fileOp h p m sk act⟩

/-- **step_preserves_wf**: whatever the event (inside the four regions too), on either backend -/
theorem step_preserves_wf (cfg : Cfg) (w : World) (s : SState) (ev : Event) (h : WF w.fs) :
    WF (step cfg w s ev).1.fs ∧ WF (stepB Backend.posix cfg w s ev).1.fs := by
  constructor
  · rw [← stepB_mem]; exact stepB_wf mem_preservesWF cfg w h s ev
  · exact stepB_wf posix_preservesWF cfg w h s ev

example : WF tree1 ∧ ¬ WF [(["a".toList, "b".toList], Entry.dir)] := by
  refine ⟨tree1_wf, fun h => ?_⟩
  have := h.parent _ (List.mem_singleton.mpr rfl)
  revert this; decide

/-! ## operation by operation: where the two backends agree (under the invariant) -/

theorem ops_agree {fs : Fs} (h : WF fs) (p : Path) :
    Posix.exists_ fs p = exists_ fs p ∧ Posix.isDir fs p = isDir fs p ∧ Posix.isFile fs p = isFile fs p ∧
    Backend.ofRes (Posix.mkdir fs p true false) = Fs.mkdirParents fs p ∧
    Backend.ofRes (Posix.rmdir fs p) = Fs.rmdir fs p ∧
    Backend.ofRes (Posix.unlink fs p) = Fs.unlink fs p ∧
    Posix.list fs p = children fs p :=
  ⟨posix_exists_eq h p, posix_isDir_eq h p, posix_isFile_eq h p, posix_mkdirParents_eq h p, posix_rmdir_eq h p,
   posix_unlink_eq h p, posix_list_eq h p⟩

/-- `open` differs only for "r+b" on a missing file in an existing directory -/
theorem open_agrees {fs : Fs} (h : WF fs) (p : Path) (mode : Nat)
    (hreg : ¬ (3 ≤ mode ∧ lookup fs p = none ∧ isDir fs p.dropLast = true)) :
    Backend.ofRes (Posix.openFile fs p mode) = Fs.openFile fs p mode := posix_openFile_eq h p mode hreg

/-- `rename` to a path that does not exist differs only in the three rename regions -/
theorem rename_agrees {fs : Fs} (h : WF fs) (src dst : Path) (hdst : lookup fs dst = none) (hne : src ≠ dst)
    (h1 : ¬ (exists_ fs src = true ∧ isFile fs dst.dropLast = true))
    (h2 : ¬ (exists_ fs src = true ∧ isDir fs dst.dropLast = true ∧ src.isPrefixOf dst = true)) :
    Backend.posix.rename fs src dst = Fs.rename fs src dst := posix_rename_eq h src dst hdst hne h1 h2

/-- the regions are exact: `open` agrees IF AND ONLY IF it is not "r+b" on a missing file in an existing directory -/
theorem open_agrees_iff {fs : Fs} (h : WF fs) (p : Path) (mode : Nat) :
    Backend.ofRes (Posix.openFile fs p mode) = Fs.openFile fs p mode ↔
      ¬ (3 ≤ mode ∧ lookup fs p = none ∧ isDir fs p.dropLast = true) :=
  ⟨fun heq hreg => posix_openFile_ne p mode hreg heq, posix_openFile_eq h p mode⟩

/-- … and `rename` to a missing path agrees IF AND ONLY IF it is in none of the three rename regions -/
theorem rename_agrees_iff {fs : Fs} (h : WF fs) (src dst : Path) (hs : src ≠ []) (hdst : lookup fs dst = none) :
    Backend.posix.rename fs src dst = Fs.rename fs src dst ↔
      ¬ (src = dst ∨ (exists_ fs src = true ∧ isFile fs dst.dropLast = true) ∨
        (exists_ fs src = true ∧ isDir fs dst.dropLast = true ∧ src.isPrefixOf dst = true)) := by
  constructor
  · intro heq hreg; exact posix_rename_ne h src dst hs hdst hreg heq
  · intro hn
    exact posix_rename_eq h src dst hdst (fun h0 => hn (Or.inl h0)) (fun h1 => hn (Or.inr (Or.inl h1)))
      (fun h2 => hn (Or.inr (Or.inr h2)))

/-! ## PathIO and AsyncPathIO are the same code (tables regenerated from the live source) -/

open Generated.PathIO in
/-- the executor plumbing of `AsyncPathIO` -/
def stripExecutor (m : BackendMethod) : BackendMethod :=
  { m with decos := m.decos.filter (fun d => d != .withTimeout && d != .blockingIo) }

open Generated.PathIO in
/-- **fs_backends_same_bodies**: method by method, `AsyncPathIO` has the signature, the body and the remaining
    decorators of `PathIO` -/
theorem fs_backends_same_bodies : asyncPathioMethods.map stripExecutor = pathioMethods := by decide

open Generated.PathIO in
/-- … and every `AsyncPathIO` method runs `with_timeout(_blocking_io(body))` innermost -/
theorem async_methods_run_in_executor :
    asyncPathioMethods.all (fun m => m.decos.drop (m.decos.length - 2) == [.withTimeout, .blockingIo]) = true := by
  decide

open Generated.PathIO in
example : pathioMethods.length = 14 := by decide

end C18
