/-
  C20  Passwords never reach the logs.

  Scope, exactly:
  * "login" is a command line `verb<SP>password<blank tail>` whose verb lower-cases to `pass`
    (the 16 ASCII spellings; no other character lower-cases to `p`, `a`, `s` — generated table).
    A line such as `PASS<TAB>pw`, `PASS<NBSP>pw` or `<SP>PASS pw` is, for `parse_command`, a different
    (unknown) verb: it is echoed in clear by the command record and by the `502 '…' not implemented`
    reply on both sides.  That is noted here, not claimed.
  * a password that contains CR or LF is refused by the client before anything is logged or sent
    (`newline_password_logs_nothing`; on the pinned tree `Client.login` put several lines on the wire and the
    server logged everything after the first LF in clear — repaired in /repo d8526e4, `old_lf_password_leaked`).
  * the line decodes in the server's encoding (a `UnicodeDecodeError` traceback names the offending
    byte and its position; not modelled).
  * what is revealed: the verb as typed, `len(password)` (client) and `len(password.rstrip())`
    (server), and the login outcome.
-/
import AioftpModel.Lemmas.Logs
import AioftpModel.Lemmas.Paths

namespace C20
open Model Model.Logs Py Generated

/-- `verb<SP>p<tail>` as it arrives at `parse_command` (`tail` = the blank end of the line, e.g. CR LF) -/
def passLine (verb p tail : Str) : Str := verb ++ ' ' :: (p ++ tail)

/-- `pass` is in the (generated) default censor list -/
theorem pass_is_censored : censorList.contains verbPass = true := by decide

theorem rstrip_blank_tail (p tail : Str) (ht : ∀ c ∈ tail, isSpace c = true) :
    rstrip (p ++ tail) = rstrip p :=
  rstrip_append_of_nil p tail ((rstrip_eq_nil_iff tail).2 ht)

/-- **shape of the server's command record** for any verb whose `lower()` is censored: the verb as
    typed, a blank, and one star per character of `p.rstrip()`; the handler is given
    `(verb.lower(), p.rstrip())`. -/
theorem server_record_shape (verb p tail : Str) (hv : censorList.contains (lower verb) = true)
    (ht : ∀ c ∈ tail, isSpace c = true) :
    parseCommand censorList (passLine verb p tail) =
      (fmt2 verb (stars (rstrip p).length), (lower verb, rstrip p)) := by
  unfold passLine
  rw [parseCommand_censored censorList verb (p ++ tail) hv (censored_verb_no_space verb hv),
    rstrip_blank_tail p tail ht]

/-- **server_noninterference.**  For every spelling of the verb whose `lower()` is `pass`, two
    passwords that have the same length after `rstrip()` give the identical command record. -/
theorem server_noninterference (verb p₁ p₂ tail₁ tail₂ : Str) (hv : lower verb = verbPass)
    (ht₁ : ∀ c ∈ tail₁, isSpace c = true) (ht₂ : ∀ c ∈ tail₂, isSpace c = true)
    (hlen : (rstrip p₁).length = (rstrip p₂).length) :
    (parseCommand censorList (passLine verb p₁ tail₁)).1 =
      (parseCommand censorList (passLine verb p₂ tail₂)).1 := by
  have hc : censorList.contains (lower verb) = true := by rw [hv]; exact pass_is_censored
  rw [server_record_shape verb p₁ tail₁ hc ht₁, server_record_shape verb p₂ tail₂ hc ht₂, hlen]

/-- the record contains no character of the password: it is the verb, a blank and stars -/
theorem server_record_only_stars (verb p tail : Str) (hv : lower verb = verbPass)
    (ht : ∀ c ∈ tail, isSpace c = true) :
    ∃ n, (parseCommand censorList (passLine verb p tail)).1 = verb ++ ' ' :: List.replicate n '*' := by
  have hc : censorList.contains (lower verb) = true := by rw [hv]; exact pass_is_censored
  exact ⟨(rstrip p).length, by rw [server_record_shape verb p tail hc ht]; rfl⟩

/-- the reply to `PASS` is one of four fixed texts, whatever was typed -/
theorem pass_reply_fixed {σ : Type} (st : LState σ) (typed : Str) :
    (passHandler st typed).1 ∈
      [[replyLine "503" "bad sequence of commands (no user (use USER firstly))"],
       [replyLine "503" "already logged in"], [replyLine "230" "normal login"],
       [replyLine "530" "wrong password"]] := by
  unfold passHandler
  cases st.user with
  | none => simp
  | some u =>
    cases st.logged with
    | true => simp
    | false => cases h : authenticate u typed <;> simp [h]

/-! ### the client -/

/-- the client's record for `PASS <pw>` (`censor_after=5`) -/
theorem client_record_shape (pw : Str) :
    clientCommandRecord ("PASS ".toList ++ pw) (some 5) = some ("PASS ".toList ++ stars pw.length) := by
  simp [clientCommandRecord]

/-- **client_noninterference.**  The client's record for `PASS <pw>` depends only on `len(pw)`. -/
theorem client_noninterference (pw₁ pw₂ : Str) (h : pw₁.length = pw₂.length) :
    clientCommandRecord ("PASS ".toList ++ pw₁) (some 5) =
      clientCommandRecord ("PASS ".toList ++ pw₂) (some 5) := by
  rw [client_record_shape, client_record_shape, h]

/-! ### whole histories on the server -/

/-- the two typed passwords are accepted alike where it matters (a user is set, nobody logged in) -/
def AuthSame {σ : Type} (st : LState σ) (r₁ r₂ : Str) : Prop :=
  ∀ u, st.user = some u → st.logged = false → authenticate u r₁ = authenticate u r₂

/-- two received lines the logs must not tell apart in state `st` -/
inductive LineIndist {σ : Type} (st : LState σ) : Str → Str → Prop
  | same (l : Str) : LineIndist st l l
  | pass (verb p₁ p₂ tail₁ tail₂ : Str) :
      lower verb = verbPass →
      (∀ c ∈ tail₁, isSpace c = true) → (∀ c ∈ tail₂, isSpace c = true) →
      (rstrip p₁).length = (rstrip p₂).length →
      AuthSame st (rstrip p₁) (rstrip p₂) →
      LineIndist st (passLine verb p₁ tail₁) (passLine verb p₂ tail₂)

/-- two histories that differ only in the passwords typed, position by position -/
inductive HistIndist {σ : Type} (env : Env σ) : LState σ → List Str → List Str → Prop
  | nil (st : LState σ) : HistIndist env st [] []
  | cons (st : LState σ) (l₁ l₂ : Str) (t₁ t₂ : List Str) :
      LineIndist st l₁ l₂ →
      (∀ recs reps st', serverStep env st l₁ = some (recs, reps, st') → HistIndist env st' t₁ t₂) →
      HistIndist env st (l₁ :: t₁) (l₂ :: t₂)

theorem passHandler_same {σ : Type} (st : LState σ) (r₁ r₂ : Str) (h : AuthSame st r₁ r₂) :
    passHandler st r₁ = passHandler st r₂ := by
  unfold passHandler
  cases hu : st.user with
  | none => rfl
  | some u =>
    cases hl : st.logged with
    | true => simp
    | false => simp [h u hu hl]

/-- one indistinguishable line: same records, same replies, same next state -/
theorem step_noninterference {σ : Type} (env : Env σ) (st : LState σ) (l₁ l₂ : Str)
    (h : LineIndist st l₁ l₂) : serverStep env st l₁ = serverStep env st l₂ := by
  cases h with
  | same => rfl
  | pass verb p₁ p₂ tail₁ tail₂ hv ht₁ ht₂ hlen hauth =>
    have hc : censorList.contains (lower verb) = true := by rw [hv]; exact pass_is_censored
    have hne : ∀ p tail : Str, (passLine verb p tail).isEmpty = false := by
      intro p tail; unfold passLine; cases verb <;> rfl
    unfold serverStep recvCommand?
    rw [hne, hne]
    simp only [Bool.false_eq_true, if_false]
    rw [server_record_shape verb p₁ tail₁ hc ht₁, server_record_shape verb p₂ tail₂ hc ht₂, hlen, hv]
    simp only [dispatch, if_true]
    rw [passHandler_same st _ _ hauth]

/-- **session_noninterference.**  For every server environment (user table and every other handler,
    none of which can see a typed password), every starting state and every two histories of
    received lines that differ only in the passwords of `PASS` lines (any spelling; equal length
    after `rstrip()`; accepted alike): all log records, all replies and the final state coincide. -/
theorem session_noninterference {σ : Type} (env : Env σ) (st : LState σ) (h₁ h₂ : List Str)
    (h : HistIndist env st h₁ h₂) : serverRun env st h₁ = serverRun env st h₂ := by
  induction h with
  | nil st => rfl
  | cons st l₁ l₂ t₁ t₂ hl _ ih =>
    have hs := step_noninterference env st l₁ l₂ hl
    unfold serverRun
    rw [← hs]
    cases hstep : serverStep env st l₁ with
    | none => rfl
    | some r =>
      obtain ⟨recs, reps, st'⟩ := r
      simp only
      rw [ih recs reps st' hstep]

/-- a one-user table used by the examples -/
def bobEnv0 : Env Unit := loginEnv [⟨some "bob".toList, some "hunter2".toList⟩]

/-! ### `Client.login` against the server, both record streams -/

theorem wireLines_no_lf (command : Str) (h : '\n' ∉ command) :
    wireLines command = [command ++ ['\r', '\n']] := by
  unfold wireLines
  have h' : '\n' ∉ command ++ ['\r'] := by
    intro hm
    rcases List.mem_append.1 hm with hm | hm
    · exact h hm
    · simp at hm
  have : command ++ ['\r', '\n'] = (command ++ ['\r']) ++ '\n' :: [] := by simp
  rw [this, splitOn_append_sep '\n' _ [] h']
  simp [splitOn]

/-- the two typed passwords are accepted alike by user `u` -/
def SameFor (r₁ r₂ : Str) (u : UserRec) : Prop := authenticate u r₁ = authenticate u r₂

instance (r₁ r₂ : Str) (u : UserRec) : Decidable (SameFor r₁ r₂ u) := by unfold SameFor; infer_instance

/-- the user a connection currently holds (if any) accepts both alike -/
def StOK {σ : Type} (r₁ r₂ : Str) (st : LState σ) : Prop := ∀ u, st.user = some u → SameFor r₁ r₂ u

theorem findUserLoop_mem (login : Str) (l : List UserRec) (acc : Option UserRec) (u : UserRec)
    (h : findUserLoop login l acc = some u) : u ∈ l ∨ acc = some u := by
  induction l generalizing acc with
  | nil => right; simpa [findUserLoop] using h
  | cons x t ih =>
    unfold findUserLoop at h
    split at h
    · rcases ih _ h with h' | h'
      · left; simp [h']
      · left; cases h'; simp
    · split at h
      · cases h; left; simp
      · rcases ih _ h with h' | h'
        · left; simp [h']
        · right; exact h'

theorem findUser_mem (users : List UserRec) (login : Str) (u : UserRec)
    (h : findUser users login = some u) : u ∈ users := by
  rcases findUserLoop_mem login users none u h with h' | h'
  · exact h'
  · cases h'

theorem passHandler_user {σ : Type} (st : LState σ) (r : Str) : (passHandler st r).2.user = st.user := by
  unfold passHandler
  cases hu : st.user with
  | none => simp [hu]
  | some u =>
    simp only
    split
    · exact hu
    · split
      · rfl
      · exact hu

theorem userHandler_ok {σ : Type} (users : List UserRec) (r₁ r₂ : Str)
    (hU : ∀ u ∈ users, SameFor r₁ r₂ u) (st : LState σ) (login : Str) :
    StOK r₁ r₂ (userHandler users st login).2 := by
  unfold userHandler
  cases hf : findUser users login with
  | none => intro u hu; simp at hu
  | some u₀ =>
    have hm := hU u₀ (findUser_mem _ _ _ hf)
    simp only
    split
    · intro u hu; simp at hu; subst hu; exact hm
    · split
      · intro u hu; simp at hu; subst hu; exact hm
      · intro u hu; simp at hu; subst hu; exact hm

/-- whatever line arrives, the connection's user stays inside (table ∪ initial user) -/
theorem serverStep_preserves {σ : Type} (env : Env σ) (r₁ r₂ : Str)
    (hU : ∀ u ∈ env.users, SameFor r₁ r₂ u) (st : LState σ) (line : Str)
    (hst : StOK r₁ r₂ st) (recs reps : List Str) (st' : LState σ)
    (h : serverStep env st line = some (recs, reps, st')) : StOK r₁ r₂ st' := by
  unfold serverStep at h
  cases hrc : recvCommand? censorList line with
  | none => rw [hrc] at h; cases h
  | some pc =>
    rw [hrc] at h
    simp only at h
    cases hd : dispatch env st pc.2.1 pc.2.2 with
    | none => rw [hd] at h; cases h
    | some out =>
      rw [hd] at h
      obtain ⟨replies, st₂⟩ := out
      simp only [Option.some.injEq, Prod.mk.injEq] at h
      obtain ⟨_, _, rfl⟩ := h
      unfold dispatch at hd
      split at hd
      · -- pass_: the user is untouched
        simp only [Option.some.injEq] at hd
        have e : st₂ = (passHandler st pc.2.2).2 := by rw [hd]
        intro u hu
        rw [e, passHandler_user] at hu
        exact hst u hu
      · split at hd
        · -- user: the new user, if any, comes from the table
          simp only [Option.some.injEq] at hd
          have e : st₂ = (userHandler env.users st pc.2.2).2 := by rw [hd]
          rw [e]
          exact userHandler_ok env.users r₁ r₂ hU st pc.2.2
        · -- any other handler cannot assign connection.user
          cases ho : env.other st pc.2.1 pc.2.2 with
          | none => rw [ho] at hd; cases hd
          | some o =>
            rw [ho] at hd
            simp only [Option.some.injEq, Prod.mk.injEq] at hd
            obtain ⟨_, rfl⟩ := hd
            exact hst

theorem serverRun_preserves {σ : Type} (env : Env σ) (r₁ r₂ : Str)
    (hU : ∀ u ∈ env.users, SameFor r₁ r₂ u) (h : List Str) :
    ∀ (st : LState σ), StOK r₁ r₂ st → ∀ recs reps st',
      serverRun env st h = some (recs, reps, st') → StOK r₁ r₂ st' := by
  induction h with
  | nil =>
    intro st hst recs reps st' hr
    simp only [serverRun, Option.some.injEq, Prod.mk.injEq] at hr
    obtain ⟨_, _, rfl⟩ := hr; exact hst
  | cons l t ih =>
    intro st hst recs reps st' hr
    unfold serverRun at hr
    cases hs : serverStep env st l with
    | none => rw [hs] at hr; cases hr
    | some o =>
      obtain ⟨rc, rp, st₁⟩ := o
      rw [hs] at hr
      simp only at hr
      have h₁ := serverStep_preserves env r₁ r₂ hU st l hst rc rp st₁ hs
      cases ht : serverRun env st₁ t with
      | none => rw [ht] at hr; cases hr
      | some o₂ =>
        obtain ⟨rc₂, rp₂, st₂⟩ := o₂
        rw [ht] at hr
        simp only [Option.some.injEq, Prod.mk.injEq] at hr
        obtain ⟨_, _, rfl⟩ := hr
        exact ih st₁ h₁ rc₂ rp₂ st₂ ht

theorem clientCommand_preserves {σ : Type} (env : Env σ) (r₁ r₂ : Str)
    (hU : ∀ u ∈ env.users, SameFor r₁ r₂ u) (w w' : Wire σ) (command : Str) (ca : Option Nat)
    (code : Str) (hw : StOK r₁ r₂ w.st) (h : clientCommand env w command ca = some (w', code)) :
    StOK r₁ r₂ w'.st := by
  unfold clientCommand at h
  cases hc : clientCommandRecord command ca with
  | none => rw [hc] at h; cases h
  | some crec =>
    rw [hc] at h
    simp only at h
    cases hr : serverRun env w.st (wireLines command) with
    | none => rw [hr] at h; cases h
    | some o =>
      obtain ⟨srecs, reps, st'⟩ := o
      rw [hr] at h
      simp only at h
      have hst' := serverRun_preserves env r₁ r₂ hU _ w.st hw srecs reps st' hr
      split at h
      · cases h
      · split at h
        · cases h
        · split at h
          · cases h
          · simp only [Option.some.injEq, Prod.mk.injEq] at h
            obtain ⟨rfl, _⟩ := h
            exact hst'

theorem pass_command_step {σ : Type} (env : Env σ) (st : LState σ) (pw₁ pw₂ : Str)
    (hn₁ : '\n' ∉ pw₁) (hn₂ : '\n' ∉ pw₂)
    (hr : (rstrip pw₁).length = (rstrip pw₂).length)
    (hauth : StOK (rstrip pw₁) (rstrip pw₂) st) :
    serverRun env st (wireLines ("PASS ".toList ++ pw₁)) =
      serverRun env st (wireLines ("PASS ".toList ++ pw₂)) := by
  have e : ∀ pw : Str, '\n' ∉ pw → wireLines ("PASS ".toList ++ pw) = [passLine "PASS".toList pw ['\r', '\n']] := by
    intro pw hn
    rw [wireLines_no_lf]
    · simp [passLine]
    · intro hm
      rcases List.mem_append.1 hm with hm | hm
      · revert hm; decide
      · exact hn hm
  rw [e pw₁ hn₁, e pw₂ hn₂]
  apply session_noninterference
  refine HistIndist.cons st _ _ [] [] ?_ (fun _ _ st' _ => HistIndist.nil st')
  exact LineIndist.pass "PASS".toList pw₁ pw₂ ['\r', '\n'] ['\r', '\n'] (by decide)
    (by decide) (by decide) hr (fun u hu _ => hauth u hu)

theorem clientCommand_pass_same {σ : Type} (env : Env σ) (w : Wire σ) (pw₁ pw₂ : Str)
    (hn₁ : '\n' ∉ pw₁) (hn₂ : '\n' ∉ pw₂) (hl : pw₁.length = pw₂.length)
    (hr : (rstrip pw₁).length = (rstrip pw₂).length)
    (hauth : StOK (rstrip pw₁) (rstrip pw₂) w.st) :
    clientCommand env w ("PASS ".toList ++ pw₁) (some 5) =
      clientCommand env w ("PASS ".toList ++ pw₂) (some 5) := by
  unfold clientCommand
  rw [client_noninterference pw₁ pw₂ hl, pass_command_step env w.st pw₁ pw₂ hn₁ hn₂ hr hauth]

/-- the guard of `BaseClient.command` as the translator found it: CR and LF -/
theorem client_rejects_newlines : Generated.clientCommandRejects = ['\r', '\n'] := by decide

theorem not_rejected_no_lf (pre pw : Str) (h : clientRejects (pre ++ pw) = false) : '\n' ∉ pw := by
  intro hm
  have : clientRejects (pre ++ pw) = true := by
    unfold clientRejects
    rw [List.any_eq_true]
    exact ⟨'\n', List.mem_append.2 (Or.inr hm), by rw [client_rejects_newlines]; decide⟩
  rw [this] at h; cases h

theorem rejected_of_lf (pw : Str) (h : '\n' ∈ pw) : clientRejects ("PASS ".toList ++ pw) = true := by
  unfold clientRejects
  rw [List.any_eq_true]
  exact ⟨'\n', List.mem_append.2 (Or.inr h), by rw [client_rejects_newlines]; decide⟩

theorem loginLoop_same {σ : Type} (env : Env σ) (pw₁ pw₂ account : Str)
    (hrej : clientRejects ("PASS ".toList ++ pw₁) = clientRejects ("PASS ".toList ++ pw₂))
    (hl : pw₁.length = pw₂.length)
    (hr : (rstrip pw₁).length = (rstrip pw₂).length)
    (hU : ∀ u ∈ env.users, SameFor (rstrip pw₁) (rstrip pw₂) u) :
    ∀ (fuel : Nat) (w : Wire σ) (code : Str), StOK (rstrip pw₁) (rstrip pw₂) w.st →
      loginLoop env pw₁ account fuel w code = loginLoop env pw₂ account fuel w code := by
  intro fuel
  induction fuel with
  | zero => intro w code _; rfl
  | succ n ih =>
    intro w code hw
    unfold loginLoop
    split
    · rfl
    · split
      · rfl
      · split
        · rw [← hrej]
          cases hj : clientRejects ("PASS ".toList ++ pw₁) with
          | true => rfl
          | false =>
            have hn₁ := not_rejected_no_lf _ _ hj
            have hn₂ := not_rejected_no_lf _ _ (hrej ▸ hj)
            simp only [Bool.false_eq_true, if_false]
            rw [clientCommand_pass_same env w pw₁ pw₂ hn₁ hn₂ hl hr hw]
            cases hc : clientCommand env w ("PASS ".toList ++ pw₂) (some 5) with
            | none => rfl
            | some r =>
              exact ih r.1 r.2 (clientCommand_preserves env _ _ hU w r.1 _ _ r.2 hw hc)
        · split
          · split
            · rfl
            · cases hc : clientCommand env w ("ACCT ".toList ++ account) none with
              | none => rfl
              | some r =>
                exact ih r.1 r.2 (clientCommand_preserves env _ _ hU w r.1 _ _ r.2 hw hc)
          · rfl

/-- **login_noninterference (both sides, every password).**  `Client.login(user, pw)` run against the server:
    for every environment, starting state, user name and account, two passwords — ANY strings, newlines
    included — of equal length, of equal length after `rstrip()`, accepted alike by every user of the table (and
    by the user the connection starts with, if any) and refused alike by the client's newline guard give the
    same client records AND the same server records — "at most the length (with and without its blank tail)
    and the outcome are revealed". -/
theorem login_noninterference {σ : Type} (env : Env σ) (st : LState σ) (user account pw₁ pw₂ : Str)
    (fuel : Nat) (hrej : clientRejects ("PASS ".toList ++ pw₁) = clientRejects ("PASS ".toList ++ pw₂))
    (hl : pw₁.length = pw₂.length)
    (hr : (rstrip pw₁).length = (rstrip pw₂).length)
    (hU : ∀ u ∈ env.users, SameFor (rstrip pw₁) (rstrip pw₂) u)
    (h0 : StOK (rstrip pw₁) (rstrip pw₂) st) :
    loginSession env st user pw₁ account fuel = loginSession env st user pw₂ account fuel := by
  unfold loginSession
  split
  · rfl
  · cases hc : clientCommand env ⟨st, [], [], []⟩ ("USER ".toList ++ user) none with
    | none => rfl
    | some r =>
      simp only
      rw [loginLoop_same env pw₁ pw₂ account hrej hl hr hU _ r.1 r.2
        (clientCommand_preserves env _ _ hU ⟨st, [], [], []⟩ r.1 _ _ r.2 h0 hc)]

/-- non-vacuity of `login_noninterference`: two different rejected passwords against `bob` -/
example : loginSession bobEnv0 initState "bob".toList "wrong-1".toList [] 8 =
    loginSession bobEnv0 initState "bob".toList "WRONG 2".toList [] 8 :=
  login_noninterference bobEnv0 initState _ _ _ _ 8 (by decide) (by decide) (by decide)
    (by decide) (by intro u hu; simp [initState] at hu)

/-! ### a password containing a line feed (finding C20:lf-password, repaired in /repo d8526e4) -/

def bobEnv : Env Unit := bobEnv0

theorem loginLoop_rejected {σ : Type} (env : Env σ) (account pw₁ pw₂ : Str)
    (r₁ : clientRejects ("PASS ".toList ++ pw₁) = true) (r₂ : clientRejects ("PASS ".toList ++ pw₂) = true) :
    ∀ (fuel : Nat) (w : Wire σ) (code : Str),
      loginLoop env pw₁ account fuel w code = loginLoop env pw₂ account fuel w code := by
  intro fuel
  induction fuel with
  | zero => intro w code; rfl
  | succ n ih =>
    intro w code
    unfold loginLoop
    simp only [r₁, r₂, if_true]
    split
    · rfl
    · split
      · rfl
      · split
        · rfl
        · split
          · split
            · rfl
            · cases clientCommand env w ("ACCT ".toList ++ account) none with
              | none => rfl
              | some r => exact ih r.1 r.2
          · rfl

/-- **newline_password_logs_nothing**: a password with a line feed never reaches `PASS`: whatever the rest of
    the password is — its length included — the records of both sides are the same, those of the exchanges
    that do not carry it.  (For every environment, state, user, account, fuel and any two such passwords.) -/
theorem newline_password_logs_nothing {σ : Type} (env : Env σ) (st : LState σ) (user account pw₁ pw₂ : Str)
    (fuel : Nat) (h₁ : '\n' ∈ pw₁) (h₂ : '\n' ∈ pw₂) :
    loginSession env st user pw₁ account fuel = loginSession env st user pw₂ account fuel := by
  have r₁ := rejected_of_lf pw₁ h₁
  have r₂ := rejected_of_lf pw₂ h₂
  unfold loginSession
  split
  · rfl
  · cases hc : clientCommand env ⟨st, [], [], []⟩ ("USER ".toList ++ user) none with
    | none => rfl
    | some r =>
      simp only
      rw [loginLoop_rejected env account pw₁ pw₂ r₁ r₂]

/-- the replay of the finding on the tree as it is now: `Client.login("bob", "ab\ncd")` and `"ab\nce"` leave the
    same records, and they are the `USER` exchange only -/
theorem lf_password_no_longer_leaks :
    loginSession bobEnv initState "bob".toList "ab\ncd".toList [] 8 =
      loginSession bobEnv initState "bob".toList "ab\nce".toList [] 8 ∧
    (loginSession bobEnv initState "bob".toList "ab\ncd".toList [] 8).map (·.2) =
      some ["USER bob".toList, "331 password required".toList] := by decide

/-- **old_lf_password_leaked** (what the finding was): without the guard the line `PASS ab\ncd` reaches the
    server as two lines, and the second is echoed in clear by the command record and by the 502 reply -/
theorem old_lf_password_leaked :
    (serverRun bobEnv ⟨some ⟨some "bob".toList, some "hunter2".toList⟩, false, ()⟩
        (wireLines ("PASS ab\ncd".toList))).map (·.1) =
      some ["PASS **".toList, "530 wrong password".toList, "cd ".toList, "502 'cd' not implemented".toList] := by
  decide

/-! ### every logging call site (generated; a new one breaks this) -/

/-- **call_sites.**  The complete list of `logger.*` / `logging.*` / `print` call sites of the package. -/
theorem call_sites : Generated.logSites = [
    ("server", "", "getLogger", ["__name__"]),
    ("server", "Server.start", "info", ["'serving on %s:%s'", "host", "port"]),
    ("server", "Server.close", "debug", ["'waiting for %d tasks'", "len(tasks)"]),
    ("server", "Server.write_line", "debug", ["line"]),
    ("server", "Server.parse_command", "debug", ["'%s %s'", "cmd", "stars"]),
    ("server", "Server.parse_command", "debug", ["'%s %s'", "cmd", "rest"]),
    ("server", "Server.dispatcher", "info", ["'new connection from %s:%s'", "host", "port"]),
    ("server", "Server.dispatcher", "exception", ["'dispatcher caught exception'"]),
    ("server", "Server.dispatcher", "info", ["'closing connection from %s:%s'", "host", "port"]),
    ("server", "Server.list.list_worker", "warning", ["'path %r does not exists'", "path"]),
    ("client", "", "getLogger", ["__name__"]),
    ("client", "BaseClient.parse_line", "debug", ["s"]),
    ("client", "BaseClient.command", "debug", ["'%s%s'", "raw", "stars"]),
    ("client", "BaseClient.command", "debug", ["command"])] := by decide

/-- the censor list is exactly `("pass",)` -/
theorem censor_list : Generated.censorCommands = ["pass"] := by decide

/-- the verb `pass` is bound to the method `pass_`, whose only guard is "a user was named" -/
theorem pass_binding : Verb.pass.method = "pass_" ∧ Verb.pass.guards = [.conn [.user] false 503] := by
  decide

/-- only `Server.user` and `Server.pass_` assign or delete `connection.user` / `connection.logged`
    (this is what lets `Env.other` leave them alone) -/
theorem login_state_writers : Generated.loginStateWriters = [
    ("Server.user", "del", "user"), ("Server.user", "del", "logged"), ("Server.user", "set", "logged"),
    ("Server.user", "set", "user"), ("Server.user", "set", "user"), ("Server.pass_", "set", "logged")] := by
  decide

/-- `pass_` uses its argument exactly once: it hands it to `authenticate` (and to nothing that logs) -/
theorem pass_rest_uses :
    Generated.passRestUses = ["self.user_manager.authenticate(connection.user, rest)"] := by decide

/-! ### non-vacuity -/

example : lower "pAsS".toList = verbPass := by decide

/-- `pAsS  s3cr3t \t` (two blanks before, blanks after): 7 stars, the handler gets ` s3cr3t` -/
example : parseCommand censorList (passLine "pAsS".toList " s3cr3t \t".toList "\r\n".toList) =
    ("pAsS *******".toList, ("pass".toList, " s3cr3t".toList)) := by decide

/-- TAB instead of the blank: not the verb `pass`; echoed in clear (out of scope, noted) -/
example : (parseCommand censorList "PASS\ts3cr3t\r\n".toList).1 = "PASS\ts3cr3t ".toList := by decide

/-- a leading blank: the verb is the empty string; echoed in clear (out of scope, noted) -/
example : (parseCommand censorList " PASS s3cr3t\r\n".toList).1 = " PASS s3cr3t".toList := by decide

/-- a full accepted login, both record streams -/
example : loginSession bobEnv initState "bob".toList "hunter2".toList [] 8 =
    some (["USER bob".toList, "331 password required".toList, "PASS *******".toList, "230 normal login".toList],
          ["USER bob".toList, "331 password required".toList, "PASS *******".toList, "230 normal login".toList]) := by
  decide

example : HistIndist bobEnv initState
    ["USER bob\r\n".toList, passLine "PaSs".toList "wrong-1".toList "\r\n".toList]
    ["USER bob\r\n".toList, passLine "PaSs".toList "WRONG 2".toList "  \r\n".toList] := by
  refine .cons _ _ _ _ _ (.same _) (fun recs reps st' hstep => ?_)
  have hst : st' = ⟨some ⟨some "bob".toList, some "hunter2".toList⟩, false, ()⟩ := by
    have h : serverStep bobEnv initState "USER bob\r\n".toList =
        some (["USER bob".toList, "331 password required".toList], ["331 password required".toList],
          ⟨some ⟨some "bob".toList, some "hunter2".toList⟩, false, ()⟩) := by decide
    rw [h] at hstep
    cases hstep
    rfl
  subst hst
  refine .cons _ _ _ _ _ ?_ (fun _ _ st'' _ => .nil _)
  refine .pass _ _ _ _ _ (by decide) (by decide) (by decide) (by decide) ?_
  intro u hu _
  cases hu
  decide

end C20
