/-
  C10  Connection limits are exact and slots are always returned.

  The system: several sessions of `Model.Session` over one shared `World` (`Model.Counters.Sys`); events
  `connect`, `line sid …`, `dataConnect sid`, `finish sid` (= the dispatcher's `finally`, for any reason, at
  any time).  Everything below is for EVERY event list, every configuration (any number of users, any
  limits including none, any tree), by induction over the event list; the single-session fact used in the
  induction step is `Model.Counters.slot_step`.

  About the model's arithmetic.  `Session.acquire` is `v.map (· - 1)` over `Nat`, i.e. truncated, and
  `Session.release` has no upper check, whereas the code's `AvailableConnections` raises `ValueError` on
  crossing either bound.  The conservation equations of `slots_invariant` are exact equations over `Nat`
  (`free + holders = maximum`); they would be FALSE for a history in which `acquire` were applied to
  `some 0` (the left side would stay, the number of holders would grow) or `release` above the maximum.
  So `slots_invariant` holding for all histories is what shows that the two `ValueError` branches are
  unreachable; `acquire_never_at_zero` and `release_never_above_max` spell that out against the
  `Except`-valued transcription `acquireE` / `releaseE` at every place where the model touches a counter
  (`step0 .connect`, `body … .user`, `finalize` -- `Counters.body_keeps` shows no other handler does).
-/
import AioftpModel.Lemmas.Counters
import AioftpModel.Properties.C12

namespace C10
open Model Model.Session Model.Counters Py Generated

/-! ### the invariant -/

structure SlotsInv (cfg : Cfg) (sys : Sys) : Prop where
  srv_none : cfg.maxConn = none → sys.world.serverFree = none
  srv_some : ∀ m, cfg.maxConn = some m →
    ∃ f, sys.world.serverFree = some f ∧ f + holding sys.sessions = m
  len : sys.world.userFree.length = cfg.users.length
  usr_none : ∀ (u : Nat) (uc : UserCfg), cfg.users[u]? = some uc → uc.maxConn = none →
    sys.world.userFree[u]? = some none
  usr_some : ∀ (u : Nat) (uc : UserCfg) (m : Nat), cfg.users[u]? = some uc → uc.maxConn = some m →
    ∃ f, sys.world.userFree[u]? = some (some f) ∧ f + attached sys.sessions u = m
  /-- a session's user is a configured one: `available_connections[user]` is never a `KeyError` -/
  valid : ∀ s ∈ sys.sessions, ∀ u, s.user = some u → u < cfg.users.length
  /-- a session that is over holds nothing -/
  dead : ∀ s ∈ sys.sessions, s.alive = false → s.acquired = false ∧ s.user = none

theorem inv_init (cfg : Cfg) (fs : Fs) : SlotsInv cfg (initSys cfg fs) where
  srv_none h := h
  srv_some m h := ⟨m, h, by simp [initSys, holding]⟩
  len := by simp [initSys, initWorld]
  usr_none u uc h hm := by simp [initSys, initWorld, h, hm]
  usr_some u uc m h hm := ⟨m, by simp [initSys, initWorld, h, hm], by simp [initSys, attached]⟩
  valid s hs := by simp [initSys] at hs
  dead s hs := by simp [initSys] at hs

/-- the counters and the two censuses after replacing / appending one session whose step is a `SlotStep` -/
theorem inv_of_slotStep (cfg : Cfg) (sys : Sys) (w' : World) (ss' : List SState) (s s' : SState)
    (hinv : SlotsInv cfg sys) (hstep : SlotStep sys.world s w' s')
    (hc1 : holding ss' + s.acquired.toNat = holding sys.sessions + s'.acquired.toNat)
    (hc2 : ∀ u, attached ss' u + (s.user == some u).toNat =
      attached sys.sessions u + (s'.user == some u).toNat)
    (hmem : ∀ x ∈ ss', x ∈ sys.sessions ∨ x = s')
    (hvalid : ∀ u, s'.user = some u → u < cfg.users.length)
    (hdead : s'.alive = false → s'.acquired = false ∧ s'.user = none) :
    SlotsInv cfg { world := w', sessions := ss' } where
  srv_none h := hstep.srv_none (hinv.srv_none h)
  srv_some m h := by
    obtain ⟨f, hf, he⟩ := hinv.srv_some m h
    obtain ⟨f', hf', he'⟩ := hstep.srv_some f hf
    refine ⟨f', hf', ?_⟩
    show f' + holding ss' = m
    omega
  len := by rw [hstep.len, hinv.len]
  usr_none u uc h hm := hstep.usr_none u (hinv.usr_none u uc h hm)
  usr_some u uc m h hm := by
    obtain ⟨f, hf, he⟩ := hinv.usr_some u uc m h hm
    obtain ⟨f', hf', he'⟩ := hstep.usr_some u f hf
    refine ⟨f', hf', ?_⟩
    show f' + attached ss' u = m
    have := hc2 u
    omega
  valid x hx u hu := by
    rcases hmem x hx with h | h
    · exact hinv.valid x h u hu
    · subst h; exact hvalid u hu
  dead x hx ha := by
    rcases hmem x hx with h | h
    · exact hinv.dead x h ha
    · subst h; exact hdead ha

theorem inv_onSession (cfg : Cfg) (sys : Sys) (sid : Nat) (ev : Event) (hne : ev ≠ .connect)
    (hinv : SlotsInv cfg sys) : SlotsInv cfg (onSession cfg sys sid ev).1 := by
  unfold onSession
  cases hs : sys.sessions[sid]? with
  | none => exact hinv
  | some s =>
    have hsm : s ∈ sys.sessions := List.mem_of_getElem? hs
    refine inv_of_slotStep cfg sys _ _ s (step cfg sys.world s ev).2.1 hinv
      (slot_step cfg sys.world s ev (fun h => absurd h hne)) ?_ ?_ ?_ ?_ (step_dead_clean cfg sys.world s ev)
    · exact countP_set _ sys.sessions sid s _ hs
    · intro u; exact countP_set _ sys.sessions sid s _ hs
    · intro x hx
      rcases List.mem_or_eq_of_mem_set hx with h | h
      · exact Or.inl h
      · exact Or.inr h
    · intro u hu
      rcases step_user_valid cfg sys.world s ev u hu with h | h
      · exact hinv.valid s hsm u h
      · exact h

/-- **the induction step**: every system event preserves the invariant -/
theorem inv_step (cfg : Cfg) (sys : Sys) (ev : SysEvent) (hinv : SlotsInv cfg sys) :
    SlotsInv cfg (sysStep cfg sys ev) := by
  cases ev with
  | connect =>
    refine inv_of_slotStep cfg sys _ _ {} (step cfg sys.world {} .connect).2.1 hinv
      (slot_step cfg sys.world {} .connect (fun _ => rfl)) ?_ ?_ ?_ ?_
      (step_dead_clean cfg sys.world {} .connect)
    · simp only [holding, countP_snoc]; rfl
    · intro u; simp only [attached, countP_snoc]; rfl
    · intro x hx
      rcases List.mem_append.mp hx with h | h
      · exact Or.inl h
      · exact Or.inr (by simpa using h)
    · intro u hu
      rcases step_user_valid cfg sys.world {} .connect u hu with h | h
      · cases h
      · exact h
  | line sid raw payload => exact inv_onSession cfg sys sid _ (by simp) hinv
  | dataConnect sid => exact inv_onSession cfg sys sid _ (by simp) hinv
  | finish sid => exact inv_onSession cfg sys sid _ (by simp) hinv

theorem inv_run (cfg : Cfg) (sys : Sys) (evs : List SysEvent) (hinv : SlotsInv cfg sys) :
    SlotsInv cfg (run cfg sys evs) := by
  induction evs generalizing sys with
  | nil => exact hinv
  | cons e t ih => exact ih _ (inv_step cfg sys e hinv)

theorem inv_reachable (cfg : Cfg) (fs : Fs) (evs : List SysEvent) :
    SlotsInv cfg (run cfg (initSys cfg fs) evs) :=
  inv_run cfg _ evs (inv_init cfg fs)

/-! ### the property -/

/-- **slots_invariant.**  For every configuration, every tree and EVERY list of system events from the
    initial system: a limited server counter is `some f` with `f +` (number of sessions holding a server
    slot) `=` the configured maximum, and for every configured user with a limit its counter is `some f`
    with `f +` (number of sessions attached to that user) `=` that user's maximum. -/
theorem slots_invariant (cfg : Cfg) (fs : Fs) (evs : List SysEvent) :
    (∀ m, cfg.maxConn = some m →
      ∃ f, (run cfg (initSys cfg fs) evs).world.serverFree = some f ∧
        f + holding (run cfg (initSys cfg fs) evs).sessions = m) ∧
    (∀ (u : Nat) (uc : UserCfg) (m : Nat), cfg.users[u]? = some uc → uc.maxConn = some m →
      ∃ f, (run cfg (initSys cfg fs) evs).world.userFree[u]? = some (some f) ∧
        f + attached (run cfg (initSys cfg fs) evs).sessions u = m) :=
  ⟨(inv_reachable cfg fs evs).srv_some, (inv_reachable cfg fs evs).usr_some⟩

/-- unlimited counters stay unlimited (`None`), and there is exactly one counter per configured user -/
theorem unlimited_stay (cfg : Cfg) (fs : Fs) (evs : List SysEvent) :
    (cfg.maxConn = none → (run cfg (initSys cfg fs) evs).world.serverFree = none) ∧
    (run cfg (initSys cfg fs) evs).world.userFree.length = cfg.users.length ∧
    (∀ (u : Nat) (uc : UserCfg), cfg.users[u]? = some uc → uc.maxConn = none →
      (run cfg (initSys cfg fs) evs).world.userFree[u]? = some none) :=
  ⟨(inv_reachable cfg fs evs).srv_none, (inv_reachable cfg fs evs).len, (inv_reachable cfg fs evs).usr_none⟩

/-- **never_exceeds.**  The number of accepted sessions never exceeds the server limit and the number of
    sessions attached to a user never exceeds that user's limit. -/
theorem never_exceeds (cfg : Cfg) (fs : Fs) (evs : List SysEvent) :
    (∀ m, cfg.maxConn = some m → holding (run cfg (initSys cfg fs) evs).sessions ≤ m) ∧
    (∀ (u : Nat) (uc : UserCfg) (m : Nat), cfg.users[u]? = some uc → uc.maxConn = some m →
      attached (run cfg (initSys cfg fs) evs).sessions u ≤ m) := by
  obtain ⟨h1, h2⟩ := slots_invariant cfg fs evs
  constructor
  · intro m hm
    obtain ⟨f, _, he⟩ := h1 m hm
    omega
  · intro u uc m hu hm
    obtain ⟨f, _, he⟩ := h2 u uc m hu hm
    omega

/-! ### the accounting itself never fails -/

theorem acquireE_of_not_locked (v : Option Nat) (h : locked v = false) : acquireE v = .ok (acquire v) := by
  cases v with
  | none => rfl
  | some n =>
    cases n with
    | zero => simp [locked] at h
    | succ k => simp [acquireE, acquire]

/-- the world after `notify_logout` of the session's present user (first half of `Server.user`) -/
def afterLogout (w : World) (s : SState) : World :=
  match s.user with
  | some i => { w with userFree := updUser w.userFree i release }
  | none => w

/-- **acquire_never_at_zero.**  In every reachable system, at both places where a counter is acquired the
    real `acquire()` succeeds and computes what the model computes:
    (1) greeting: if the server counter is not locked, `acquire` does not raise;
    (2) `USER login` on any session, any login: if `get_user` (run after the old user was logged out) hands
        out user `j`, then `j` has a counter (no `KeyError`) and acquiring it does not raise. -/
theorem acquire_never_at_zero (cfg : Cfg) (fs : Fs) (evs : List SysEvent) :
    let sys := run cfg (initSys cfg fs) evs
    (locked sys.world.serverFree = false →
      acquireE sys.world.serverFree = .ok (acquire sys.world.serverFree)) ∧
    (∀ s ∈ sys.sessions, ∀ (login : Str) (j : Nat),
      (getUser cfg (afterLogout sys.world s) login).2.1 = some j →
      ∃ v, (afterLogout sys.world s).userFree[j]? = some v ∧ acquireE v = .ok (acquire v)) := by
  intro sys
  have hinv : SlotsInv cfg sys := inv_reachable cfg fs evs
  refine ⟨acquireE_of_not_locked _, ?_⟩
  intro s _ login j hj
  have hlt : j < (afterLogout sys.world s).userFree.length := by
    have := getUser_valid cfg _ login j hj
    have hl : (afterLogout sys.world s).userFree.length = sys.world.userFree.length := by
      unfold afterLogout; split <;> simp
    rw [hl, hinv.len]; exact this
  have hnl := getUser_not_locked cfg _ login j hj
  rw [List.getElem?_eq_getElem hlt] at hnl ⊢
  exact ⟨_, rfl, acquireE_of_not_locked _ (by simpa using hnl)⟩

theorem countP_pos_of_mem {α : Type} (p : α → Bool) (l : List α) (a : α) (h : a ∈ l) (hp : p a = true) :
    0 < l.countP p := List.countP_pos_iff.mpr ⟨a, h, hp⟩

/-- **release_never_above_max.**  In every reachable system, for every session: if it holds a server slot,
    `available_connections.release()` in the `finally` block does not raise; if it is attached to user `u`,
    that user is configured and `notify_logout` (in `finally` or on re-`USER`) does not raise.  Both
    compute what the model computes. -/
theorem release_never_above_max (cfg : Cfg) (fs : Fs) (evs : List SysEvent) :
    let sys := run cfg (initSys cfg fs) evs
    ∀ s ∈ sys.sessions,
      (s.acquired = true →
        releaseE cfg.maxConn sys.world.serverFree = .ok (release sys.world.serverFree)) ∧
      (∀ u, s.user = some u → ∃ uc v, cfg.users[u]? = some uc ∧ sys.world.userFree[u]? = some v ∧
        releaseE uc.maxConn v = .ok (release v)) := by
  intro sys s hs
  have hinv : SlotsInv cfg sys := inv_reachable cfg fs evs
  constructor
  · intro ha
    cases hm : cfg.maxConn with
    | none => rw [hinv.srv_none hm]; rfl
    | some m =>
      obtain ⟨f, hf, he⟩ := hinv.srv_some m hm
      have hpos : 0 < holding sys.sessions := countP_pos_of_mem _ _ s hs ha
      rw [hf]
      have : ¬ (f + 1 > m) := by omega
      simp [releaseE, release, this]
  · intro u hu
    have hlt := hinv.valid s hs u hu
    refine ⟨cfg.users[u], ?_⟩
    have hcu : cfg.users[u]? = some cfg.users[u] := List.getElem?_eq_getElem hlt
    cases hm : (cfg.users[u]).maxConn with
    | none => exact ⟨none, hcu, hinv.usr_none u _ hcu hm, rfl⟩
    | some m =>
      obtain ⟨f, hf, he⟩ := hinv.usr_some u _ m hcu hm
      have hpos : 0 < attached sys.sessions u :=
        countP_pos_of_mem _ _ s hs (by simp [hu])
      refine ⟨some f, hcu, hf, ?_⟩
      have : ¬ (f + 1 > m) := by omega
      simp [releaseE, release, this]

/-! ### refusals are not counted -/

/-- **refusal_not_counted**, greeting: when the server counter is locked the new connection is answered 421,
    the world (both kinds of counters, and the tree) is unchanged, and the refused session holds nothing --
    so neither census changes. -/
theorem refusal_not_counted_greeting (cfg : Cfg) (sys : Sys) (h : locked sys.world.serverFree = true) :
    (sysStepOut cfg sys .connect).2.replies = [421] ∧
    (sysStep cfg sys .connect).world = sys.world ∧
    holding (sysStep cfg sys .connect).sessions = holding sys.sessions ∧
    ∀ u, attached (sysStep cfg sys .connect).sessions u = attached sys.sessions u := by
  have hr : step cfg sys.world {} .connect =
      (sys.world, { alive := false }, { replies := [421] }) := by
    unfold step
    simp [step0, h, finalize]
  simp only [sysStep, sysStepOut, hr, holding, attached, countP_snoc]
  simp

/-- the command word of `raw` is `user` (any spelling the dispatcher lower-cases to it) -/
def isUserCmd (raw : Str) : Prop := (parseCommand raw).1 = "user".toList
instance (raw : Str) : Decidable (isUserCmd raw) := inferInstanceAs (Decidable (_ = _))

theorem user_guards : Verb.user.guards = [] := by decide
theorem user_verb : verbOf "user".toList = some .user := by decide

/-- what a `USER` line does to a live session, in terms of `get_user` on the world after the logout -/
theorem step_user_line (cfg : Cfg) (w : World) (s : SState) (raw : Str) (p : Bytes) (hu : isUserCmd raw)
    (ha : s.alive = true) :
    (step cfg w s (.line raw p)).2.2.replies = [(getUser cfg (afterLogout w s) (parseCommand raw).2).1] ∧
    (step cfg w s (.line raw p)).2.1.user = (getUser cfg (afterLogout w s) (parseCommand raw).2).2.1 ∧
    (step cfg w s (.line raw p)).2.1.acquired = s.acquired ∧
    (step cfg w s (.line raw p)).1 =
      (match (getUser cfg (afterLogout w s) (parseCommand raw).2).2.1 with
        | some j => { afterLogout w s with userFree := updUser (afterLogout w s).userFree j acquire }
        | none => afterLogout w s) := by
  have h0 : step0 cfg w s (.line raw p) =
      body cfg w (resetRestart "user".toList s) .user (parseCommand raw).2
        (argOf (resetRestart "user".toList s) .user (parseCommand raw).2) p := by
    simp only [step0, dispatch]
    rw [hu, user_verb]
    simp only [runVerb, user_guards, runGuards]
  have halive : (step0 cfg w s (.line raw p)).2.1.alive = true := by
    rw [h0]; delta body; dsimp only; simpa using ha
  rw [step_of_alive cfg w s _ halive, h0]
  delta body; dsimp only
  exact ⟨rfl, rfl, by simp, rfl⟩

theorem getUser_530_iff (cfg : Cfg) (w : World) (login : Str) :
    (getUser cfg w login).1 = 530 ↔ (getUser cfg w login).2.1 = none := by
  unfold getUser
  split
  · simp
  · split
    · simp
    · split
      · simp
      · split
        · simp
        · split <;> simp

/-- **refusal_not_counted**, `USER`: a `USER` line on a live session that is answered 530 (unknown user, or
    that user's counter is locked) acquires nothing: afterwards the session has no user, keeps its server
    slot, and the world is exactly the world after the logout of the session's previous user -- for a
    session without a user the world (every counter) is unchanged. -/
theorem refusal_not_counted_user (cfg : Cfg) (w : World) (s : SState) (raw : Str) (p : Bytes)
    (hu : isUserCmd raw) (ha : s.alive = true)
    (h530 : (step cfg w s (.line raw p)).2.2.replies = [530]) :
    (step cfg w s (.line raw p)).2.1.user = none ∧
    (step cfg w s (.line raw p)).2.1.acquired = s.acquired ∧
    (step cfg w s (.line raw p)).1 = afterLogout w s ∧
    (s.user = none → (step cfg w s (.line raw p)).1 = w) := by
  obtain ⟨h1, h2, h3, h4⟩ := step_user_line cfg w s raw p hu ha
  rw [h1] at h530
  have hnone := (getUser_530_iff cfg _ _).mp (by simpa using h530)
  rw [hnone] at h2 h4
  refine ⟨h2, h3, h4, ?_⟩
  intro hs
  rw [h4]; simp [afterLogout, hs]

/-- and conversely every `USER` answered 230/331 is counted exactly once (the reply decides) -/
theorem admission_counted_user (cfg : Cfg) (w : World) (s : SState) (raw : Str) (p : Bytes)
    (hu : isUserCmd raw) (ha : s.alive = true)
    (hne : (step cfg w s (.line raw p)).2.2.replies ≠ [530]) :
    ∃ j, (step cfg w s (.line raw p)).2.1.user = some j ∧
      (step cfg w s (.line raw p)).1.userFree = updUser (afterLogout w s).userFree j acquire := by
  obtain ⟨h1, h2, _, h4⟩ := step_user_line cfg w s raw p hu ha
  rw [h1] at hne
  cases hg : (getUser cfg (afterLogout w s) (parseCommand raw).2).2.1 with
  | none =>
    exact absurd (by rw [(getUser_530_iff cfg _ _).mpr hg]) hne
  | some j =>
    rw [hg] at h2 h4
    exact ⟨j, h2, by rw [h4]⟩

/-! ### quiescence -/

/-- **quiescent_full.**  In every reachable system in which all sessions are over (not alive), every counter
    is back at its configured maximum. -/
theorem quiescent_full (cfg : Cfg) (fs : Fs) (evs : List SysEvent)
    (hall : ∀ s ∈ (run cfg (initSys cfg fs) evs).sessions, s.alive = false) :
    (run cfg (initSys cfg fs) evs).world.serverFree = cfg.maxConn ∧
    (run cfg (initSys cfg fs) evs).world.userFree = cfg.users.map (·.maxConn) := by
  have hinv : SlotsInv cfg (run cfg (initSys cfg fs) evs) := inv_reachable cfg fs evs
  have hh : holding (run cfg (initSys cfg fs) evs).sessions = 0 :=
    countP_eq_zero_of_all_false _ _ (fun s hs => (hinv.dead s hs (hall s hs)).1)
  have hat : ∀ u, attached (run cfg (initSys cfg fs) evs).sessions u = 0 := fun u =>
    countP_eq_zero_of_all_false _ _ (fun s hs => by simp [(hinv.dead s hs (hall s hs)).2])
  constructor
  · cases hm : cfg.maxConn with
    | none => exact hinv.srv_none hm
    | some m =>
      obtain ⟨f, hf, he⟩ := hinv.srv_some m hm
      rw [hf]; congr; omega
  · apply List.ext_getElem?
    intro u
    rcases Nat.lt_or_ge u cfg.users.length with hlt | hge
    · have hcu : cfg.users[u]? = some cfg.users[u] := List.getElem?_eq_getElem hlt
      rw [List.getElem?_map, hcu]
      cases hm : (cfg.users[u]).maxConn with
      | none => rw [hinv.usr_none u _ hcu hm]; simp [hm]
      | some m =>
        obtain ⟨f, hf, he⟩ := hinv.usr_some u _ m hcu hm
        have := hat u
        rw [hf]; simp [hm]; omega
    · rw [List.getElem?_eq_none (by rw [hinv.len]; exact hge),
        List.getElem?_eq_none (by simpa using hge)]

/-- `finish` on every session index, in order -/
def finishAll (n : Nat) : List SysEvent := (List.range n).map .finish

theorem run_append (cfg : Cfg) (sys : Sys) (a b : List SysEvent) :
    run cfg sys (a ++ b) = run cfg (run cfg sys a) b := by
  simp [run, List.foldl_append]

theorem finish_effect (cfg : Cfg) (sys : Sys) (k : Nat) :
    (sysStep cfg sys (.finish k)).sessions.length = sys.sessions.length ∧
    (∀ j, j ≠ k → (sysStep cfg sys (.finish k)).sessions[j]? = sys.sessions[j]?) ∧
    (∀ s, (sysStep cfg sys (.finish k)).sessions[k]? = some s → Clean s) := by
  simp only [sysStep, sysStepOut, onSession]
  cases hs : sys.sessions[k]? with
  | none =>
    refine ⟨rfl, fun _ _ => rfl, ?_⟩
    intro s h; simp [hs] at h
  | some s0 =>
    refine ⟨by simp, fun j hj => by simp [List.getElem?_set_ne (Ne.symm hj)], ?_⟩
    intro s h
    have hk : k < sys.sessions.length := by
      rcases Nat.lt_or_ge k sys.sessions.length with h' | h'
      · exact h'
      · rw [List.getElem?_eq_none h'] at hs; cases hs
    simp only [List.getElem?_set_self hk, Option.some.injEq] at h
    subst h
    exact step_finish_clean cfg sys.world s0

theorem finishAll_clean (cfg : Cfg) (sys : Sys) (k : Nat) :
    (run cfg sys (finishAll k)).sessions.length = sys.sessions.length ∧
    ∀ j s, j < k → (run cfg sys (finishAll k)).sessions[j]? = some s → Clean s := by
  induction k with
  | zero => exact ⟨rfl, fun j s h => absurd h (Nat.not_lt_zero j)⟩
  | succ k ih =>
    have hfa : finishAll (k + 1) = finishAll k ++ [.finish k] := by
      simp [finishAll, List.range_succ]
    rw [hfa, run_append]
    obtain ⟨hl, hc⟩ := ih
    obtain ⟨e1, e2, e3⟩ := finish_effect cfg (run cfg sys (finishAll k)) k
    have hrun1 : ∀ y, run cfg y [SysEvent.finish k] = sysStep cfg y (.finish k) := fun _ => rfl
    rw [hrun1]
    refine ⟨by rw [e1, hl], ?_⟩
    intro j s hj hs
    by_cases hjk : j = k
    · subst hjk; exact e3 s hs
    · rw [e2 j hjk] at hs
      exact hc j s (by omega) hs

/-- **quiescent_after_finish_all.**  From ANY reachable system, once every session has had its `finish`
    (QUIT, abrupt disconnect, timeout, handler error, `server.close()` -- all end in the same `finally`),
    the full limits are available again. -/
theorem quiescent_after_finish_all (cfg : Cfg) (fs : Fs) (evs : List SysEvent) :
    let n := (run cfg (initSys cfg fs) evs).sessions.length
    (run cfg (initSys cfg fs) (evs ++ finishAll n)).world.serverFree = cfg.maxConn ∧
    (run cfg (initSys cfg fs) (evs ++ finishAll n)).world.userFree = cfg.users.map (·.maxConn) := by
  intro n
  apply quiescent_full
  intro s hs
  rw [run_append] at hs
  obtain ⟨hl, hc⟩ := finishAll_clean cfg (run cfg (initSys cfg fs) evs) n
  obtain ⟨j, hj, hjs⟩ := List.getElem_of_mem hs
  have hjn : j < n := by rw [hl] at hj; exact hj
  exact (hc j s hjn (by rw [List.getElem?_eq_getElem hj, hjs])).1

/-! ### non-vacuity: three sessions, a relogin as an over-limit user, an abrupt end between USER and PASS -/

def demoCfg : Cfg :=
  { users := [⟨some "alice".toList, some "secret".toList, ⟨1, []⟩, [], some 1⟩,
              ⟨some "bob".toList, none, ⟨1, []⟩, [], some 2⟩],
    maxConn := some 2 }

def demoEvents : List SysEvent :=
  [.connect,                              -- session 0 accepted            srv 1
   .connect,                              -- session 1 accepted            srv 0
   .connect,                              -- session 2 refused with 421    srv 0, not counted
   .line 0 "USER alice".toList [],        -- 331, alice's only slot taken  alice 0
   .line 1 "USER bob".toList [],          -- 230                           bob 1
   .line 1 "user alice".toList [],        -- relogin as over-limit user: bob's slot returned, 530, not counted
   .finish 0]                             -- abrupt end between USER and PASS: alice's and the server slot back

/-- the counters after each prefix of the history (server, [alice, bob]) and the two censuses -/
example :
    (List.range 8).map (fun k =>
      let sys := run demoCfg (initSys demoCfg []) (demoEvents.take k)
      (sys.world.serverFree, sys.world.userFree, holding sys.sessions,
        attached sys.sessions 0, attached sys.sessions 1)) =
    [(some 2, [some 1, some 2], 0, 0, 0),
     (some 1, [some 1, some 2], 1, 0, 0),
     (some 0, [some 1, some 2], 2, 0, 0),
     (some 0, [some 1, some 2], 2, 0, 0),
     (some 0, [some 0, some 2], 2, 1, 0),
     (some 0, [some 0, some 1], 2, 1, 1),
     (some 0, [some 0, some 2], 2, 1, 0),
     (some 1, [some 1, some 2], 1, 0, 0)] := by
  decide

/-- the replies along the way: 220, 220, 421, 331, 230, 530 -/
example :
    (List.range 6).map (fun k =>
      (sysStepOut demoCfg (run demoCfg (initSys demoCfg []) (demoEvents.take k))
        (demoEvents.getD k .connect)).2.replies) =
    [[220], [220], [421], [331], [230], [530]] := by
  decide

/-- hypotheses of `refusal_not_counted_greeting` and `refusal_not_counted_user` are met in this history -/
example : locked (run demoCfg (initSys demoCfg []) (demoEvents.take 2)).world.serverFree = true := by decide
example : isUserCmd "user alice".toList := by decide

/-- and of `quiescent_after_finish_all`: finishing the three sessions gives everything back -/
example :
    let sys := run demoCfg (initSys demoCfg []) (demoEvents ++ finishAll 3)
    sys.world.serverFree = some 2 ∧ sys.world.userFree = [some 1, some 2] ∧
      sys.sessions.all (fun s => !s.alive) = true := by
  decide

/-- the equations are sensitive to exactly the defect the `ValueError` branches guard against: applying the
    model's truncated `acquire` to a locked counter breaks "free + holders = maximum" -/
example : (acquire (some 0)).getD 0 + (0 + 1) ≠ 0 + 0 := by decide
example : acquireE (some 0) = .error .tooManyAcquires ∧ releaseE (some 2) (some 2) = .error .tooManyReleases ∧
    acquireE (some 1) = .ok (some 0) ∧ releaseE (some 2) (some 1) = .ok (some 2) := ⟨rfl, rfl, rfl, rfl⟩

/-! ### the place where both slots are given back is always reached -/

/-- the slots are released in the dispatcher's `finally`; a session-ending command first waits in
    `response_queue.join()`.  As the source is now that wait cannot last for ever once the reply writer is gone
    (peer vanished, write timed out) - for every schedule of queued, written and failed replies
    (`C12.join_cannot_hang`; the three facts about `response_writer` are obligations of this file too). -/
theorem release_is_reached (evs : List Model.ReplyQueue.Ev)
    (hd : (Model.ReplyQueue.run Model.ReplyQueue.facts Model.ReplyQueue.init evs).writerAlive = false) :
    (Model.ReplyQueue.run Model.ReplyQueue.facts Model.ReplyQueue.init evs).joinReturns :=
  (C12.join_cannot_hang evs).2 hd

end C10
