/-
  C09  Client tree operations (upload, download, recursive list, remove) are faithful.

  Statements are about `Model.ClientTree` — the four client algorithms transcribed from `aioftp/client.py`
  over an abstract remote (tree + working directory + "MLST/MLSD present?") and a local tree — and are
  quantified over every tree, every path made of wire-safe names, every working directory, every recursion
  depth, with MLST/MLSD and through the LIST fallback alike.  A tree is observed through `Fs.lookup`; "the
  tree became X" is stated as equality of `lookup` at every path.

  Upload: `upload_spec_file` and `upload_spec_dir` together are the full-strength statement — every destination
  shape ('' / one component / several / absolute), `write_into` on and off, every working directory.  On the
  pinned tree the directory half was FALSE for most destinations (finding F5: the per-child `relative` forgot
  the destination's parents); it is repaired in /repo (bcdced1), the model reads the assignment off the
  source (`Generated.uploadRelative`), and `old_relative_*` keep the negative witnesses as statements about the
  old expressions.
-/
import AioftpModel.Lemmas.ClientSpec
import AioftpModel.Lemmas.ClientFuel
import AioftpModel.Lemmas.ClientFuelBfs
import AioftpModel.Lemmas.ClientFuelUpload
import AioftpModel.Lemmas.ListingErr

namespace C09
open Model Model.ClientTree Model.Fs Py

/-! ### vocabulary -/

/-- `graft base T src S`: `base` with the subtree of `src` rooted at `S` placed at `T`
    (entries of the subtree win, missing ancestors of `T` become directories, nothing else changes) -/
abbrev graft := @Overlay

/-- the documented destination of `upload`/`download`: `dest` itself with `write_into`, else `dest/<source name>` -/
def placed (source dest : PPath) (writeInto : Bool) : PPath :=
  if writeInto then dest else dest.join (PPath.parse source.name)

/-- the full-strength upload statement for one call -/
def UploadSpec (l : Local) (r : Remote) (source dest : PPath) (wi : Bool) : Prop :=
  ∀ r' S, upload l r source dest wi = .ok r' → l.node source = some S →
    ∀ q, lookup r'.fs q = graft r.fs (landing r.cwd (placed source dest wi)) l.fs S q

/-! ### upload -/

/-- **upload_spec_file (files, every destination).**  Uploading a local *file* puts exactly that file at
    the documented destination, creates the missing directories above it and changes nothing else —
    for every destination shape, `write_into` on or off, every working directory, both server kinds. -/
theorem upload_spec_file (l : Local) (r r' : Remote) (source dest : PPath) (wi : Bool)
    (hr : ROK r) (hl : PC l.fs) (hfile : l.isFile source = true) (hdest : SafeP (placed source dest wi))
    (h : upload l r source dest wi = .ok r') :
    ∃ S, l.node source = some S ∧
      ∀ q, lookup r'.fs q = graft r.fs (landing r.cwd (placed source dest wi)) l.fs S q := by
  unfold upload at h
  rw [if_pos hfile] at h
  obtain ⟨data, hread, _, _, _, _, hlk⟩ := uploadFile_spec hr hdest h
  unfold Local.read at hread
  cases hn : l.node source with
  | none => rw [hn] at hread; cases hread
  | some S =>
    rw [hn] at hread
    simp only at hread
    split at hread
    · rename_i fs' c0 pos ho
      injection hread with hread
      subst hread
      exact ⟨S, rfl, file_overlay hl (openFile_rb ho) hlk⟩
    · cases hread

/-- **upload_spec_of_relative (directories).**  For a directory source the remote tree becomes the graft at
    the documented destination *whenever the `relative` path computed for each child resolves below that
    destination* (`RelGood`).  Finding F5 was precisely that `RelGood` failed for most destinations; with the
    repaired assignment it holds for all of them (`relGood`). -/
theorem upload_spec_of_relative (l : Local) (r r' : Remote) (source dest : PPath) (wi : Bool) (S : Path)
    (hr : ROK r) (hlpc : PC l.fs) (hlsafe : SafeV l.fs) (hnode : l.node source = some S)
    (hdir : lookup l.fs S = some .dir) (hdest : SafeP (placed source dest wi))
    (hrel : RelGood ⟨l, source, placed source dest wi, wi, S, landing r.cwd (placed source dest wi), r.cwd⟩)
    (hcompat : ∀ rp, lookup l.fs (S ++ rp) = some .dir →
      ∀ d, lookup r.fs (landing r.cwd (placed source dest wi) ++ rp) ≠ some (.file d))
    (h : upload l r source dest wi = .ok r') :
    ∀ q, lookup r'.fs q = graft r.fs (landing r.cwd (placed source dest wi)) l.fs S q := by
  have hisdir : l.isDir source = true := by
    unfold Local.isDir; rw [hnode]; exact (isDir_iff _ _).mpr hdir
  have hnotfile : ¬ l.isFile source = true := by
    unfold Local.isFile; rw [hnode]
    simp only
    rw [isFile_iff]; rintro ⟨c, hc⟩; rw [hdir] at hc; cases hc
  unfold upload at h
  rw [if_neg hnotfile, if_pos hisdir] at h
  change (match makeDirectory r (placed source dest wi) with
    | Except.error e => Except.error e
    | Except.ok r1 => uploadLoop l source (placed source dest wi) wi (l.fs.length + 1) r1 [source]) =
      Except.ok r' at h
  split at h
  · cases h
  · rename_i r1 hmk
    obtain ⟨hc1, hm1, hlk1, hr1⟩ := makeDirectory_spec hr hdest hmk
    let c : UCtx := ⟨l, source, placed source dest wi, wi, S, landing r.cwd (placed source dest wi), r.cwd⟩
    have hcOK : c.OK := ⟨hnode, hlpc, hlsafe, hrel⟩
    have hT1 : lookup r1.fs c.T = some .dir := by
      rw [hlk1]; unfold ensured
      by_cases habs : lookup r.fs c.T = none
      · have hT : c.T ≠ [] := by
          intro h0; rw [h0, lookup_nil] at habs; cases habs
        rw [if_pos ⟨hT, List.prefix_refl _, habs⟩]
      · rw [if_neg (by simp [habs])]
        cases he : lookup r.fs c.T with
        | none => exact absurd he habs
        | some e =>
          cases e with
          | dir => rfl
          | file d =>
            have := hcompat [] (by simpa using hdir) d
            simp only [List.append_nil] at this
            exact absurd he this
    have hnc1 : NoClash c r1.fs := by
      intro rp hd d hf
      rw [hlk1] at hf
      unfold ensured at hf
      split at hf
      · cases hf
      · exact hcompat rp hd d hf
    obtain ⟨_, _, _, hfin⟩ := uploadDir_core c hcOK hdir hr1 hc1 hT1 hnc1 h
    intro q
    rw [hfin]; unfold graft Overlay
    by_cases hpre : c.T <+: q
    · rw [if_pos hpre, if_pos hpre]
      cases hl : lookup l.fs (S ++ q.drop c.T.length) with
      | some e => rfl
      | none =>
        simp only
        rw [hlk1]; unfold ensured
        rw [if_neg]
        rintro ⟨_, hq, _⟩
        have : q = c.T := hq.eq_of_length (Nat.le_antisymm hq.length_le hpre.length_le)
        subst this
        simp only [List.drop_length, List.append_nil] at hl
        rw [hdir] at hl; cases hl
    · rw [if_neg hpre, if_neg hpre, hlk1]

/-- **upload_spec_dir (directories, every destination).**  Uploading a local directory tree makes the remote
    tree the graft of that tree at the documented destination — `dest/<source name>` by default, `dest` with
    `write_into` — with identical structure and contents (empty directories and empty files included), missing
    parents created and nothing else changed: for every tree, every destination shape, every working directory
    on either side, both server kinds.  (`hcompat`: where the local tree has a directory the server has no
    file — otherwise MKD fails and `upload` raises instead of returning.) -/
theorem upload_spec_dir (l : Local) (r r' : Remote) (source dest : PPath) (wi : Bool) (S : Path)
    (hr : ROK r) (hlpc : PC l.fs) (hlsafe : SafeV l.fs) (hnode : l.node source = some S)
    (hdir : lookup l.fs S = some .dir) (hdest : SafeP (placed source dest wi))
    (hcompat : ∀ rp, lookup l.fs (S ++ rp) = some .dir →
      ∀ d, lookup r.fs (landing r.cwd (placed source dest wi) ++ rp) ≠ some (.file d))
    (h : upload l r source dest wi = .ok r') :
    ∀ q, lookup r'.fs q = graft r.fs (landing r.cwd (placed source dest wi)) l.fs S q :=
  upload_spec_of_relative l r r' source dest wi S hr hlpc hlsafe hnode hdir hdest
    (relGood l source (placed source dest wi) wi S r.cwd hdest) hcompat h

/-- **upload_total** (adequacy of the loop bound): with `fuel = |local tree| + 1` the `sources` loop never stops
    for lack of fuel — each local directory is dequeued at most once. -/
theorem upload_total (l : Local) (r : Remote) (source dest : PPath) (wi : Bool) (S : Path)
    (hnode : l.node source = some S) (hlpc : PC l.fs) (hlsafe : SafeV l.fs) (hnd : (l.fs.map (·.1)).Nodup) :
    upload l r source dest wi ≠ .error .fuel :=
  upload_no_fuel l r source dest wi S ⟨hnode, hlpc, hlsafe, hnd⟩

/-! ### the full-strength upload statement is false on the pinned tree (finding F5) -/

private def n (s : String) : Str := s.toList

/-- local tree `/s/` containing the file `/s/a` -/
def wLocal : Local := { fs := [([n "s"], .dir), ([n "s", n "a"], .file [65])], cwd := ⟨1, []⟩ }
/-- an empty server, working directory `/` -/
def wRemote : Remote := { fs := [], cwd := ⟨1, []⟩, mlsx := true }

/-- a server with `/w/t/{e/, f}` and working directory `/w`, without MLST/MLSD (LIST fallback) -/
def exRemote : Remote :=
  { fs := [([n "w"], .dir), ([n "w", n "t"], .dir), ([n "w", n "t", n "e"], .dir), ([n "w", n "t", n "f"], .file [1, 2])],
    cwd := ⟨1, [n "w"]⟩, mlsx := false }

theorem exRemote_ok : ROK exRemote := rok_of_checks (by decide) (by decide) (by decide)
theorem wRemote_ok : ROK wRemote := rok_of_checks (by decide) (by decide) (by decide)
theorem wLocal_ok : PC wLocal.fs ∧ SafeV wLocal.fs := wfB_sound (by decide)

def isOk {α : Type} : M α → Bool
  | .ok _ => true
  | .error _ => false

theorem exists_of_isOk {α : Type} {x : M α} (h : isOk x = true) : ∃ a, x = .ok a := by
  cases x with
  | ok a => exact ⟨a, rfl⟩
  | error e => cases h

/-- non-vacuity of `upload_spec_file`: a file, a two-component destination, no `write_into`, cwd `/w`,
    LIST fallback — all hypotheses hold and the file arrives at `/w/d1/d2/a` -/
example : ∃ r', upload wLocal exRemote ⟨1, [n "s", n "a"]⟩ ⟨0, [n "d1", n "d2"]⟩ false = .ok r' ∧
    lookup r'.fs [n "w", n "d1", n "d2", n "a"] = some (.file [65]) ∧ lookup r'.fs [n "w", n "d1"] = some .dir := by
  obtain ⟨r', hr'⟩ := exists_of_isOk (x := upload wLocal exRemote ⟨1, [n "s", n "a"]⟩ ⟨0, [n "d1", n "d2"]⟩ false)
    (by decide)
  obtain ⟨S, hS, hq⟩ := upload_spec_file wLocal exRemote r' _ _ false exRemote_ok wLocal_ok.1 (by decide)
    (safeP_of_check (by decide)) hr'
  have hS' : S = [n "s", n "a"] := by
    have : wLocal.node ⟨1, [n "s", n "a"]⟩ = some [n "s", n "a"] := by decide
    rw [this] at hS; injection hS with hS; exact hS.symm
  subst hS'
  refine ⟨r', hr', ?_, ?_⟩
  · rw [hq]; decide
  · rw [hq]; decide

/-- non-vacuity of `upload_spec_dir`, and the two shapes finding F5 broke: directory `/s` to `d1/d2` with
    `write_into`, cwd `/w`: the child arrives at `/w/d1/d2/a` -/
example : ∃ r', upload wLocal exRemote ⟨1, [n "s"]⟩ ⟨0, [n "d1", n "d2"]⟩ true = .ok r' ∧
    lookup r'.fs [n "w", n "d1", n "d2", n "a"] = some (.file [65]) ∧ lookup r'.fs [n "w", n "d2"] = none := by
  obtain ⟨r', hr'⟩ := exists_of_isOk (x := upload wLocal exRemote ⟨1, [n "s"]⟩ ⟨0, [n "d1", n "d2"]⟩ true) (by decide)
  have hq := upload_spec_dir wLocal exRemote r' ⟨1, [n "s"]⟩ ⟨0, [n "d1", n "d2"]⟩ true [n "s"] exRemote_ok
    wLocal_ok.1 wLocal_ok.2 (by decide) (by decide) (safeP_of_check (by decide))
    (by
      intro rp _ d hd
      have hfresh : lookup exRemote.fs [n "w", n "d1"] = none := by decide
      have hl : landing exRemote.cwd (placed ⟨1, [n "s"]⟩ ⟨0, [n "d1", n "d2"]⟩ true) = [n "w", n "d1", n "d2"] := by
        decide
      have hpre : [n "w", n "d1"] <+: landing exRemote.cwd (placed ⟨1, [n "s"]⟩ ⟨0, [n "d1", n "d2"]⟩ true) ++ rp := by
        rw [hl]; exact ⟨[n "d2"] ++ rp, by simp⟩
      rw [exRemote_ok.pc.none_below hfresh hpre] at hd
      cases hd)
    hr'
  exact ⟨r', hr', by rw [hq]; decide, by rw [hq]; decide⟩

/-- … and directory `/s` to `x` without `write_into`: the child arrives at `/w/x/s/a` -/
example : ∃ r', upload wLocal exRemote ⟨1, [n "s"]⟩ ⟨0, [n "x"]⟩ false = .ok r' ∧
    lookup r'.fs [n "w", n "x", n "s", n "a"] = some (.file [65]) ∧ lookup r'.fs [n "w", n "s"] = none := by
  obtain ⟨r', hr'⟩ := exists_of_isOk (x := upload wLocal exRemote ⟨1, [n "s"]⟩ ⟨0, [n "x"]⟩ false) (by decide)
  have hq := upload_spec_dir wLocal exRemote r' ⟨1, [n "s"]⟩ ⟨0, [n "x"]⟩ false [n "s"] exRemote_ok
    wLocal_ok.1 wLocal_ok.2 (by decide) (by decide) (safeP_of_check (by decide))
    (by
      intro rp _ d hd
      have hfresh : lookup exRemote.fs [n "w", n "x"] = none := by decide
      have hl : landing exRemote.cwd (placed ⟨1, [n "s"]⟩ ⟨0, [n "x"]⟩ false) = [n "w", n "x", n "s"] := by decide
      have hpre : [n "w", n "x"] <+: landing exRemote.cwd (placed ⟨1, [n "s"]⟩ ⟨0, [n "x"]⟩ false) ++ rp := by
        rw [hl]; exact ⟨[n "s"] ++ rp, by simp⟩
      rw [exRemote_ok.pc.none_below hfresh hpre] at hd
      cases hd)
    hr'
  exact ⟨r', hr', by rw [hq]; decide, by rw [hq]; decide⟩

/-- the assignment the proofs rest on, as the translator found it -/
theorem generated_relative : Generated.uploadRelative = [("", "destination / path.relative_to(source)")] := by decide

/-- **old_relative_write_into** (what finding F5 was, 1): with `write_into` the pinned tree computed
    `destination.name / …`: for `upload("/s", "d1/d2", write_into=True)` the child `a` is sent to `d2/a`, i.e.
    lands at `/d2/a` instead of `/d1/d2/a`. -/
theorem old_relative_write_into :
    relativeOfWith oldUploadRelative ⟨1, [n "s"]⟩ ⟨0, [n "d1", n "d2"]⟩ (ext ⟨1, [n "s"]⟩ [n "a"]) true
      = .ok ⟨0, [n "d2", n "a"]⟩ ∧
    landing ⟨1, []⟩ ⟨0, [n "d2", n "a"]⟩ ≠ landing ⟨1, []⟩ ⟨0, [n "d1", n "d2"]⟩ ++ [n "a"] := by decide

/-- **old_relative_default** (F5, 2): without `write_into` it computed `path.relative_to(source.parent)`: for
    `upload("/s", "x")` the child is sent to `s/a` and lands at `/s/a` instead of `/x/s/a`. -/
theorem old_relative_default :
    relativeOfWith oldUploadRelative ⟨1, [n "s"]⟩ (placed ⟨1, [n "s"]⟩ ⟨0, [n "x"]⟩ false) (ext ⟨1, [n "s"]⟩ [n "a"]) false
      = .ok ⟨0, [n "s", n "a"]⟩ ∧
    landing ⟨1, []⟩ ⟨0, [n "s", n "a"]⟩ ≠ landing ⟨1, []⟩ (placed ⟨1, [n "s"]⟩ ⟨0, [n "x"]⟩ false) ++ [n "a"] := by decide

/-- the old expressions agree with the repaired one exactly on the shapes the test-suite uses -/
theorem old_relative_agrees_on_tested_shapes (source path : PPath) (d : Str) (hd : SafeName d) :
    relativeOfWith oldUploadRelative source ⟨0, [d]⟩ path true = relativeOf source ⟨0, [d]⟩ path true := by
  rw [relativeOf_eq]
  cases h : path.relativeTo? source <;>
    simp [relativeOfWith, oldUploadRelative, guardHolds, evalRel, PPath.name, parse_name d hd, h]

/-! ### download -/

/-! ### `make_directory` and `..` (finding F20, repaired in /repo 21d06ff) -/

/-- **fact_make_directory_stops_at_dotdot**: as regenerated from `client.py`, the loop of `make_directory` stops at a
    `..` component (`path.name != ".."`) -/
theorem fact_make_directory_stops_at_dotdot : Generated.makeDirectoryStopsAtDotDot = true := by decide

/-- **make_directory_never_creates_dotdot**: for EVERY server state and EVERY path, no directory that `make_directory`
    decides to create ends in `..` -/
theorem make_directory_never_creates_dotdot (r : Remote) (root : Nat) : ∀ (rev : List Str) (need : List PPath),
    needCreateNow r root rev = .ok need → ∀ p ∈ need, p.parts.getLast? ≠ some dotdot := by
  have key : ∀ (rev : List Str) (need : List PPath),
      needCreateSkip r root rev = .ok need → ∀ p ∈ need, p.parts.getLast? ≠ some dotdot := by
    intro rev
    induction rev with
    | nil =>
      intro need h
      unfold needCreateSkip at h
      injection h with h; subst h
      intro p hp; cases hp
    | cons x up ih =>
      intro need h
      unfold needCreateSkip at h
      split at h
      · injection h with h; subst h; intro p hp; cases hp
      · rename_i hx
        split at h
        · cases h
        · injection h with h; subst h; intro p hp; cases hp
        · split at h
          · cases h
          · rename_i more hmore
            injection h with h; subst h
            intro p hp
            rcases List.mem_cons.mp hp with hp | hp
            · subst hp
              simp only [List.reverse_cons, List.getLast?_append, List.getLast?_singleton, Option.some_or]
              intro hc; injection hc with hc; exact hx hc
            · exact ih more hmore p hp
  intro rev need h
  unfold needCreateNow at h
  rw [fact_make_directory_stops_at_dotdot] at h
  exact key rev need h

/-- **old_make_directory_asked_for_dotdot** (what F20 was): on a server without MLST, `make_directory("../up")` took
    `..` for missing (the LIST fallback of `stat` looks for an entry NAMED `..`) and put it on its list, so `MKD ..` was
    sent and refused; with the extra test only `../up` is created -/
theorem old_make_directory_asked_for_dotdot :
    needCreate exRemote 0 [n "up", dotdot] = .ok [⟨0, [dotdot, n "up"]⟩, ⟨0, [dotdot]⟩] ∧
    needCreateSkip exRemote 0 [n "up", dotdot] = .ok [⟨0, [dotdot, n "up"]⟩] := by decide

/-- **download_spec** (full strength).  Whenever `download` returns normally, the local tree is the graft of
    the remote subtree at the documented destination: same structure, same contents, empty directories
    included, missing local parents made, nothing else touched. Every destination shape, `write_into` on/off,
    every working directory on either side, MLST or LIST fallback, any depth. -/
theorem download_spec (l l' : Local) (r : Remote) (source dest : PPath) (wi : Bool) (T : Path)
    (hr : RInv r) (hl : PC l.fs) (hsrc : SafeP source) (hparts : source.parts ≠ [])
    (hnode : l.node (placed source dest wi) = some T)
    (h : downloadTop l r source dest wi = .ok l') :
    l'.cwd = l.cwd ∧ PC l'.fs ∧
    ∀ q, lookup l'.fs q = graft l.fs T r.fs (landing r.cwd source) q := by
  obtain ⟨h1, h2, h3⟩ := download_spec_aux r hr _ l l' source dest wi T ⟨hl⟩ hsrc hparts hnode h
  exact ⟨h1, h2.pc, h3⟩

/-- **download_total** (adequacy of the recursion bound): started with `fuel = |remote tree| + 1` the model of
    `download` never stops for lack of fuel — it returns normally or raises an error the code raises. -/
theorem download_total (l : Local) (r : Remote) (source dest : PPath) (wi : Bool) (hr : RInv r)
    (hsrc : SafeP source) (hparts : source.parts ≠ []) : downloadTop l r source dest wi ≠ .error .fuel :=
  downloadTop_no_fuel l r source dest wi hr hsrc hparts

/-! ### recursive list -/

/-- **list_recursive_spec** (full strength).  Whenever `list(path, recursive=True)` returns normally, every
    entry strictly below the resolved path is returned exactly once (no path is repeated), with its type and
    under the path `path / <relative part>`; and nothing else is returned. -/
theorem list_recursive_spec (r : Remote) (p : PPath) (out : List (PPath × Kind))
    (hr : RInv r) (hnd : (r.fs.map (·.1)).Nodup) (hp : SafeP p)
    (h : listRecursive r p = .ok out) :
    (out.map (·.1)).Nodup ∧
    ∀ path k, (path, k) ∈ out ↔
      ∃ rel, rel ≠ [] ∧ path = ext p rel ∧
        ∃ e, lookup r.fs (landing r.cwd p ++ rel) = some e ∧ kindOf e = k := by
  unfold listRecursive at h
  have h' : listRecLoop r (r.fs.length + 1) ([([] : Path)].map (ext p)) = .ok out := by
    simpa [ext_nil] using h
  obtain ⟨outs, hout, hnd', hmem⟩ := listRecLoop_spec r hr hnd p hp _ [[]] out
    (by intro d hd; simp at hd; subst hd; simp) (by simp [Antichain]) h'
  subst hout
  constructor
  · rw [List.map_map]
    have : ((fun x : PPath × Kind => x.1) ∘ fun x : Path × Kind => (ext p x.1, x.2)) =
        (ext p) ∘ (fun x : Path × Kind => x.1) := rfl
    rw [this, ← List.map_map]
    exact List.Pairwise.map (ext p) (fun a b hab h => hab (ext_inj p h)) hnd'
  · intro path k
    constructor
    · intro hm
      obtain ⟨x, hx, hxe⟩ := List.mem_map.mp hm
      injection hxe with h1 h2
      have hx' : (x.1, k) ∈ outs := by rw [← h2]; cases x; exact hx
      obtain ⟨⟨d, hd, hpre, hne⟩, hex⟩ := (hmem x.1 k).mp hx'
      simp at hd; subst hd
      exact ⟨x.1, fun h0 => hne h0.symm, h1.symm, hex⟩
    · rintro ⟨rel, hne, rfl, hex⟩
      apply List.mem_map.mpr
      exact ⟨(rel, k), (hmem rel k).mpr ⟨⟨[], by simp, List.nil_prefix, fun h0 => hne h0.symm⟩, hex⟩, rfl⟩

/-- **list_recursive_total** (adequacy of the loop bound): with `fuel = |tree| + 1` the queue loop never stops
    for lack of fuel — each directory entry is dequeued at most once. -/
theorem list_recursive_total (r : Remote) (p : PPath) (hr : RInv r) (hnd : (r.fs.map (·.1)).Nodup) (hp : SafeP p) :
    listRecursive r p ≠ .error .fuel :=
  listRecursive_no_fuel r p hr hnd hp

/-! ### remove -/

/-- **remove_spec** (full strength).  Whenever `remove(path)` returns normally, the tree is the old one minus
    the whole subtree at the resolved path, and nothing else; in particular a missing path changes nothing. -/
theorem remove_spec (r r' : Remote) (p : PPath) (hr : RInv r) (hp : SafeP p) (hparts : p.parts ≠ [])
    (h : removeTop r p = .ok r') :
    r'.cwd = r.cwd ∧ ∀ q, lookup r'.fs q = if landing r.cwd p <+: q then none else lookup r.fs q := by
  obtain ⟨h1, _, h3⟩ := remove_spec_aux _ r r' p hr hp hparts h
  exact ⟨h1, h3⟩

/-- **remove_total** (adequacy of the recursion bound): started with `fuel = |tree| + 1` the model of `remove`
    never stops for lack of fuel. -/
theorem remove_total (r : Remote) (p : PPath) (hr : RInv r) (hp : SafeP p) (hparts : p.parts ≠ []) :
    removeTop r p ≠ .error .fuel :=
  removeTop_no_fuel r p hr hp hparts

/-- the invariant is kept, so `remove` can be iterated -/
theorem remove_keeps_invariant (r r' : Remote) (p : PPath) (hr : RInv r) (hp : SafeP p) (hparts : p.parts ≠ [])
    (h : removeTop r p = .ok r') : RInv r' := by
  obtain ⟨h1, _, h3⟩ := remove_spec_aux _ r r' p hr hp hparts h
  have ht : landing r.cwd p ≠ [] := by
    rw [landing_eq_parent_name r.cwd p hparts]; simp
  exact hr.of_removed ht h1 h3

/-! ### empty directories -/

/-- **empty_dirs_preserved.**  In a tree that is the graft at a destination that did not exist before, the
    part below the destination is an exact copy of the source subtree: every directory of the source is a
    directory there, and an empty one stays empty. -/
theorem empty_dirs_preserved {base src fs' : Fs} {T S : Path} (hov : ∀ q, lookup fs' q = graft base T src S q)
    (hpc : PC base) (hfresh : lookup base T = none) (rp : Path) (hd : lookup src (S ++ rp) = some .dir)
    (hempty : ∀ x, lookup src (S ++ (rp ++ [x])) = none) :
    lookup fs' (T ++ rp) = some .dir ∧ ∀ x, lookup fs' (T ++ (rp ++ [x])) = none := by
  constructor
  · rw [hov]; unfold graft; rw [overlay_fresh hpc hfresh, hd]
  · intro x
    rw [hov]; unfold graft; rw [overlay_fresh hpc hfresh, hempty]

/-- without freshness: every directory of the source (empty or not) exists at the destination -/
theorem dirs_preserved {base src fs' : Fs} {T S : Path} (hov : ∀ q, lookup fs' q = graft base T src S q)
    (rp : Path) (hd : lookup src (S ++ rp) = some .dir) : lookup fs' (T ++ rp) = some .dir := by
  rw [hov]; unfold graft; exact overlay_at_source rp hd

/-! ### non-vacuity of the remaining theorems -/

/-- an empty local tree with working directory `/` -/
def exLocal : Local := { fs := [([n "lw"], .dir)], cwd := ⟨1, []⟩ }

/-- `download("t", "x/y")` from cwd `/w` through the LIST fallback: hypotheses hold; the file, the empty
    directory and the missing local parents all appear -/
example : ∃ l', downloadTop exLocal exRemote ⟨0, [n "t"]⟩ ⟨0, [n "x", n "y"]⟩ false = .ok l' ∧
    lookup l'.fs [n "x", n "y", n "t", n "f"] = some (.file [1, 2]) ∧
    lookup l'.fs [n "x", n "y", n "t", n "e"] = some .dir ∧
    (∀ x, lookup l'.fs ([n "x", n "y", n "t"] ++ ([n "e"] ++ [x])) = none) ∧
    lookup l'.fs [n "lw"] = some .dir := by
  obtain ⟨l', hl'⟩ := exists_of_isOk
    (x := downloadTop exLocal exRemote ⟨0, [n "t"]⟩ ⟨0, [n "x", n "y"]⟩ false) (by decide)
  have hlpc : PC exLocal.fs := (wfB_sound (by decide)).1
  obtain ⟨_, _, hq⟩ := download_spec exLocal l' exRemote ⟨0, [n "t"]⟩ ⟨0, [n "x", n "y"]⟩ false
    [n "x", n "y", n "t"] exRemote_ok.rinv hlpc (safeP_of_check (by decide)) (by decide) (by decide) hl'
  have hempty := empty_dirs_preserved (T := [n "x", n "y", n "t"]) hq hlpc (by decide) [n "e"] (by decide)
    (by
      intro x
      have hfile_none : ∀ q, [n "w", n "t", n "e"] <+: q → q ≠ [n "w", n "t", n "e"] →
          lookup exRemote.fs q = none := by
        intro q hpre hne
        by_cases hq : lookup exRemote.fs q = none
        · exact hq
        · exfalso
          have hne' : q ≠ [] := by intro h0; subst h0; simp at hpre
          rw [lookup_ne_nil _ hne'] at hq
          cases hlk : lk exRemote.fs q with
          | none => exact hq hlk
          | some e =>
            have hm := lk_some_mem hlk
            simp only [exRemote, List.mem_cons, Prod.mk.injEq, List.mem_nil_iff, or_false] at hm
            rcases hm with h | h | h | h
            all_goals (obtain ⟨h1, _⟩ := h; subst h1; revert hpre hne; decide)
      exact hfile_none _ ⟨[x], by simp [landing, exRemote]⟩ (by simp [landing, exRemote]))
  refine ⟨l', hl', ?_, hempty.1, hempty.2, ?_⟩
  · rw [hq]; decide
  · rw [hq]; decide

/-- `list("", recursive=True)` from cwd `/w` through the LIST fallback: exactly `t`, `t/e`, `t/f` -/
example : ∃ out, listRecursive exRemote ⟨0, []⟩ = .ok out ∧ (out.map (·.1)).Nodup ∧
    ((⟨0, [n "t", n "f"]⟩ : PPath), Kind.file) ∈ out ∧ ((⟨0, [n "t", n "e"]⟩ : PPath), Kind.dir) ∈ out ∧
    ∀ k, ((⟨0, [n "w"]⟩ : PPath), k) ∉ out := by
  obtain ⟨out, hout⟩ := exists_of_isOk (x := listRecursive exRemote ⟨0, []⟩) (by decide)
  obtain ⟨hnd, hmem⟩ := list_recursive_spec exRemote ⟨0, []⟩ out exRemote_ok.rinv (by decide)
    (safeP_of_check (by decide)) hout
  refine ⟨out, hout, hnd, ?_, ?_, ?_⟩
  · exact (hmem _ _).mpr ⟨[n "t", n "f"], by decide, by decide, .file [1, 2], by decide, rfl⟩
  · exact (hmem _ _).mpr ⟨[n "t", n "e"], by decide, by decide, .dir, by decide, rfl⟩
  · intro k hk
    obtain ⟨rel, _, hrel, e, he, _⟩ := (hmem _ _).mp hk
    have : rel = [n "w"] := by
      have := congrArg PPath.parts hrel
      simpa [ext] using this.symm
    subst this
    have hnone : lookup exRemote.fs (landing exRemote.cwd ⟨0, []⟩ ++ [n "w"]) = none := by decide
    rw [hnone] at he
    cases he

/-- `remove("t")` from cwd `/w` through the LIST fallback: `/w/t/**` goes, `/w` stays -/
example : ∃ r', removeTop exRemote ⟨0, [n "t"]⟩ = .ok r' ∧ lookup r'.fs [n "w", n "t", n "e"] = none ∧
    lookup r'.fs [n "w", n "t"] = none ∧ lookup r'.fs [n "w"] = some .dir := by
  obtain ⟨r', hr'⟩ := exists_of_isOk (x := removeTop exRemote ⟨0, [n "t"]⟩) (by decide)
  obtain ⟨_, hq⟩ := remove_spec exRemote r' ⟨0, [n "t"]⟩ exRemote_ok.rinv (safeP_of_check (by decide)) (by decide) hr'
  refine ⟨r', hr', ?_, ?_, ?_⟩ <;> (rw [hq]; decide)

/-! ### listings of servers that name the listed directory and its parent -/

/-- **dot_entries_do_not_change_a_listing.**  Other servers put entries for the listed directory and its parent into a
    listing (`type=cdir; .` and `type=pdir; ..` in MLSD, the first two lines of `ls -la`).  Whatever lines parse to the
    names `.` or `..`, wherever they stand (`pre`, `mid`) and however many, what `Client.list` yields is what it yields
    for the listing without them - so a recursive listing neither repeats a directory nor descends into it again. -/
theorem dot_entries_do_not_change_a_listing {α : Type} (parse : α → Except Py.PyErr Model.ListingParse.ListEntry) (path : PPath)
    (pre mid rest : List α)
    (hd : ∀ l ∈ pre ++ mid, ∃ name info, parse l = .ok (name, info) ∧ (name.str = ['.'] ∨ name.str = Model.dotdot)) :
    Model.ListingParse.listLines parse path (pre ++ (mid ++ rest)) = Model.ListingParse.listLines parse path rest := by
  have skip : ∀ (ds : List α), (∀ l ∈ ds, ∃ name info, parse l = .ok (name, info) ∧ (name.str = ['.'] ∨ name.str = Model.dotdot)) →
      ∀ tl, Model.ListingParse.listLines parse path (ds ++ tl) = Model.ListingParse.listLines parse path tl := by
    intro ds
    induction ds with
    | nil => intro _ tl; rfl
    | cons d ds ih =>
      intro h tl
      obtain ⟨name, info, hp, hn⟩ := h d (by simp)
      have := Model.ListingParse.listStep_dot (parse := parse) (path := path) d name info hp hn
      simp only [List.cons_append, Model.ListingParse.listLines, this, bind, Except.bind]
      rw [ih (fun l hl => h l (List.mem_cons_of_mem _ hl)) tl]
      cases Model.ListingParse.listLines parse path tl <;> rfl
  rw [skip pre (fun l hl => hd l (List.mem_append_left _ hl)), skip mid (fun l hl => hd l (List.mem_append_right _ hl))]

end C09
