/-
  C15  Speed limits bound the cumulative rate, compose, and cost nothing when off.

  Model: Model/Throttle.lean (namespace `Model.Throttling`: `Throttle`, `waitAll`/`appendAll` = `ThrottleStreamIO.wait/append`,
  `Sys` = any number of streams over one store of throttle objects under any schedule, `ServerW` /
  `ClientW` = the wiring).  Proofs: Lemmas/Throttle*.lean.

  Vocabulary of the statements (Lemmas/ThrottleSys.lean).  For a throttle `x` of a system run
  `grun x s₀ Ghost.init evs = some (s, g)` the ghost record `g` holds plain observables of the trace:
    g.moved   bytes of every I/O *started* so far on a stream holding `x` (finished or in flight)
    g.acc     bytes of the finished ones (what `append` has been given)
    g.t0      the start stamp of the first I/O appended to `x`;  g.fb  the instant the first I/O started
    g.folds   number of `reset_rate` folds of `x` in which `round(elapsed·limit)` was not exact
    blocks    one block per stream holding `x`: the one in flight, else its last finished one
  `Sys.step` accepts an event only if time does not run backwards and an I/O does not start before
  its `wait` is over; the correspondence run feeds it the implementation's own event order.

  Result.  The bound that holds for the code as written carries `g.folds / 2` extra bytes
  (`shared_sum`); without that term the property is false for the pinned code
  (`literal_bound_fails`, finding "fold-rounding-drift"): every fold may shift the window by half a
  byte and the shifts add up.  With exact folds the literal bound holds (`shared_sum_exact`).
-/
import AioftpModel.Lemmas.ThrottleInv
import AioftpModel.Lemmas.ThrottleWiring
import AioftpModel.Generated.ThrottleWiring

namespace C15
open Model.Throttling Py

/-! ## one throttle -/

/-- **key_invariant.**  On a limited throttle with memory, `append` moves `limit·start + sum` by
    exactly `len(data)`, plus at most one half either way when the call folds the window and `round`
    is not exact (`foldSlack ∈ {0,1}`), whatever the time stamp is. -/
theorem key_invariant (t : Throttle) (l : Int) (n : Nat) (stamp s : Rat)
    (hl : t.limit = some l) (hp : 0 < l) (hs : t.start = some s) :
    (t.append n stamp).start ≠ none ∧
    |(t.append n stamp).debt l - (t.debt l + n)| ≤ (t.foldSlack stamp : Rat) / 2 := by
  obtain ⟨s', h1, h2, h3⟩ := (debt_append t l n stamp hl hp).2 s hs
  exact ⟨by rw [h1]; simp, abs_le.2 ⟨h3, h2⟩⟩

/-- the first `append` opens the window at its stamp -/
theorem key_invariant_first (t : Throttle) (l : Int) (n : Nat) (stamp : Rat)
    (hl : t.limit = some l) (hp : 0 < l) (hs : t.start = none) :
    (t.append n stamp).start = some stamp ∧ (t.append n stamp).debt l = (l : Rat) * stamp + t.sum + n :=
  (debt_append t l n stamp hl hp).1 hs

/-- a fold whose `elapsed · limit` is an integer costs nothing (`round` is the identity there) -/
theorem key_invariant_exact (t : Throttle) (l : Int) (stamp s : Rat) (k : Int)
    (hl : t.limit = some l) (hs : t.start = some s) (hk : (stamp - s) * (l : Rat) = k) :
    t.foldSlack stamp = 0 := by
  simp [Throttle.foldSlack, hl, hs, hk, round_int]

example : let t : Throttle := ⟨some 4, 10, some 0, 40⟩
    t.folds (21/2) = true ∧ t.foldSlack (21/2) = 0 ∧ (t.append 10 (21/2)).debt 4 = t.debt 4 + 10 := by
  decide +kernel

example : let t : Throttle := ⟨some 1, 1, some 0, 1⟩
    t.folds (3/2) = true ∧ t.foldSlack (3/2) = 1 ∧ (t.append 2 (3/2)).debt 1 = t.debt 1 + 2 - 1/2 := by
  decide +kernel

/-- **no_extra_delay** (one throttle).  `wait` never returns early, never before the accounted
    bytes are paid for, and when it made the caller wait it returns exactly at that instant. -/
theorem wait_least (t : Throttle) (l : Int) (s now : Rat) (hl : t.limit = some l) (hp : 0 < l)
    (hs : t.start = some s) :
    now ≤ t.waitUntil now ∧ t.debt l ≤ (l : Rat) * t.waitUntil now ∧
      (now < t.waitUntil now → (l : Rat) * t.waitUntil now = t.debt l) := by
  have := wait_spec t l s now hl hp hs
  simpa [Throttle.debt, hs] using this

/-- the `limit` setter and `clone` forget the memory -/
theorem setLimit_resets (t : Throttle) (v : Option Int) :
    (t.setLimit v).start = none ∧ (t.setLimit v).sum = 0 ∧ (t.setLimit v).limit = v ∧
      ∀ now, (t.setLimit v).waitUntil now = now :=
  ⟨rfl, rfl, rfl, fun now => waitUntil_off _ now (Or.inr rfl)⟩

theorem clone_no_memory (t : Throttle) :
    t.clone.start = none ∧ t.clone.sum = 0 ∧ t.clone.limit = t.limit ∧ t.clone.resetRate = t.resetRate :=
  ⟨rfl, rfl, rfl, rfl⟩

/-! ## one stream, several throttles -/

/-- **tightest_governs.**  The I/O of a stream starts at the maximum of "now" and the wait ends of
    its throttles with a truthy limit: no earlier than any of them, and exactly at one of them
    (or at once). -/
theorem tightest_governs (store : Store) (ids : List Nat) (now : Rat) :
    now ≤ waitAll store ids now ∧
    (∀ x t, x ∈ ids → store[x]? = some t → t.truthy = true → t.waitUntil now ≤ waitAll store ids now) ∧
    (waitAll store ids now = now ∨
      ∃ x t, x ∈ ids ∧ store[x]? = some t ∧ t.truthy = true ∧ waitAll store ids now = t.waitUntil now) :=
  ⟨waitAll_ge_now store ids now, fun x t hx ht htr => waitAll_ge_each store ids now x t hx ht htr,
    waitAll_tight store ids now⟩

example : waitAll [⟨some 4, 10, some 0, 40⟩, ⟨some 8, 10, some 1, 40⟩, ⟨none, 10, none, 0⟩] [0, 1, 2] 3 = 10 := by
  decide +kernel

/-- **no_extra_delay.**  If `wait(name)` made the caller wait at all, it ended exactly when one of
    the stream's limited throttles had its accounted bytes paid for (`limit·T = limit·start + sum`),
    and every other limited throttle was satisfied by then: the wait is the least admissible one. -/
theorem no_extra_delay (store : Store) (ids : List Nat) (now : Rat)
    (h : now < waitAll store ids now) :
    ∃ x t l, x ∈ ids ∧ store[x]? = some t ∧ t.limit = some l ∧ 0 < l ∧ t.start ≠ none ∧
      (l : Rat) * waitAll store ids now = t.debt l := by
  rcases waitAll_tight store ids now with e | ⟨x, t, hx, ht, _, e⟩
  · rw [e] at h; exact absurd h (lt_irrefl _)
  · have hon : t.on = true := by
      by_contra hoff
      rw [e, waitUntil_off t now (Or.inl (by simpa using hoff))] at h
      exact lt_irrefl _ h
    obtain ⟨l, hl, hp⟩ := (on_iff t).1 hon
    cases hs : t.start with
    | none =>
      rw [e, waitUntil_off t now (Or.inr hs)] at h
      exact absurd h (lt_irrefl _)
    | some s =>
      refine ⟨x, t, l, hx, ht, hl, hp, by simp [hs], ?_⟩
      rw [e] at h ⊢
      exact (wait_least t l s now hl hp hs).2.2 h

/-- **unlimited_no_delay.**  No throttle of this direction has a positive limit (`None`, `0`, or a
    limit only on the *other* direction's throttles, which are different objects): the I/O starts
    at once, no throttle state changes, and with all limits falsy not even a task is created. -/
theorem unlimited_no_delay (store : Store) (ids : List Nat) (now : Rat)
    (h : ∀ x t, x ∈ ids → store[x]? = some t → t.on = false) :
    waitAll store ids now = now := by
  rcases waitAll_tight store ids now with e | ⟨x, t, hx, ht, _, e⟩
  · exact e
  · rw [e]; exact waitUntil_off t now (Or.inl (h x t hx ht))

theorem unlimited_no_state (store : Store) (ids : List Nat) (n : Nat) (stamp : Rat)
    (h : ∀ x t, x ∈ ids → store[x]? = some t → t.on = false) (x : Nat) :
    (appendAll store ids n stamp)[x]? = store[x]? := by
  unfold appendAll
  induction ids generalizing store with
  | nil => rfl
  | cons i ids ih =>
    simp only [List.foldl_cons]
    have hstep : ∀ y : Nat, (updAt (fun t => t.append n stamp) store i)[y]? = store[y]? := by
      intro y
      rw [updAt_get]
      by_cases e : y = i
      · subst e
        cases ht : store[y]? with
        | none => simp
        | some t => simp [append_off t n stamp (h y t List.mem_cons_self ht)]
      · simp [e]
    rw [ih]
    · exact hstep x
    · intro y t hy ht
      rw [hstep y] at ht
      exact h y t (List.mem_cons_of_mem _ hy) ht

theorem unlimited_no_task (store : Store) (ids : List Nat)
    (h : ∀ x t, x ∈ ids → store[x]? = some t → t.truthy = false) : waitTasks store ids = 0 := by
  unfold waitTasks
  rw [List.length_eq_zero_iff, List.filter_eq_nil_iff]
  intro i hi
  cases ht : store[i]? with
  | none => simp
  | some t => simp [h i t hi ht]

/-- only the opposite direction is limited: the two directions of a `StreamThrottle` are different
    throttle objects, and `wait("read")` looks at the read ones only -/
theorem other_direction_no_delay (store : Store) (d : ThrottleDict) (now : Rat)
    (h : ∀ e t, e ∈ d → store[e.2.read]? = some t → t.on = false) :
    waitAll store (d.ids .read) now = now := by
  apply unlimited_no_delay
  intro x t hx ht
  simp only [ThrottleDict.ids, List.mem_map] at hx
  obtain ⟨e, he, rfl⟩ := hx
  exact h e t he ht

example : waitAll [⟨none, 10, none, 0⟩, ⟨some 1, 10, some 0, 1000⟩] (ThrottleDict.ids [("_", ⟨0, 1⟩)] .read) 5 = 5 := by
  decide +kernel

/-! ## any number of streams, any schedule -/

/-- **shared_sum** (and `rate_bound` for several streams).  `x` is a throttle with limit `l > 0`,
    fresh in a system at rest; after *any* accepted event trace, if `x` has memory:

      bytes started on all streams holding `x`
        ≤ l · (now − t₀) + (inexact folds)/2 + one block per stream holding `x`,

    where `t₀ ≥` the instant the first such I/O started.  Hence the bytes moved through every
    stream sharing the limit, taken together, never run ahead of `l · elapsed` by more than one
    block per stream plus half a byte per inexact fold. -/
theorem shared_sum (x : Nat) (l : Int) (hl : 0 < l) (s₀ : Sys) (h₀ : Fresh x l s₀) (evs : List Ev)
    (s : Sys) (g : Ghost) (hr : grun x s₀ Ghost.init evs = some (s, g))
    (t : Throttle) (ht : s.store[x]? = some t) (hs : t.start ≠ none) :
    (g.moved : Rat) ≤ (l : Rat) * (s.now - g.t0) + (g.folds : Rat) / 2 + blocks x s g ∧
    g.t0 ≤ s.now ∧ ∃ f, g.fb = some f ∧ f ≤ g.t0 :=
  (bound_of_inv hl (inv_run hl evs (inv_init h₀) hr)).2.2 t ht hs

/-- the same against the instant the first limited I/O started -/
theorem shared_sum_since_first_io (x : Nat) (l : Int) (hl : 0 < l) (s₀ : Sys) (h₀ : Fresh x l s₀)
    (evs : List Ev) (s : Sys) (g : Ghost) (hr : grun x s₀ Ghost.init evs = some (s, g))
    (t : Throttle) (ht : s.store[x]? = some t) (hs : t.start ≠ none) :
    ∃ f, g.fb = some f ∧
      (g.moved : Rat) ≤ (l : Rat) * (s.now - f) + (g.folds : Rat) / 2 + blocks x s g := by
  obtain ⟨h1, _, f, hf, hle⟩ := shared_sum x l hl s₀ h₀ evs s g hr t ht hs
  refine ⟨f, hf, ?_⟩
  have : (l : Rat) * (s.now - g.t0) ≤ (l : Rat) * (s.now - f) :=
    mul_le_mul_l hl (by linarith)
  linarith

/-- before anything has been appended to `x`, only first blocks are under way -/
theorem shared_sum_before_first_append (x : Nat) (l : Int) (hl : 0 < l) (s₀ : Sys) (h₀ : Fresh x l s₀)
    (evs : List Ev) (s : Sys) (g : Ghost) (hr : grun x s₀ Ghost.init evs = some (s, g))
    (t : Throttle) (ht : s.store[x]? = some t) (hs : t.start = none) :
    g.moved ≤ blocks x s g :=
  (bound_of_inv hl (inv_run hl evs (inv_init h₀) hr)).2.1 t ht hs

/-- with exact folds (e.g. `limit · grid` integral) the literal bound of the property holds -/
theorem shared_sum_exact (x : Nat) (l : Int) (hl : 0 < l) (s₀ : Sys) (h₀ : Fresh x l s₀) (evs : List Ev)
    (s : Sys) (g : Ghost) (hr : grun x s₀ Ghost.init evs = some (s, g))
    (t : Throttle) (ht : s.store[x]? = some t) (hs : t.start ≠ none) (hex : g.folds = 0) :
    (g.moved : Rat) ≤ (l : Rat) * (s.now - g.t0) + blocks x s g := by
  have := (shared_sum x l hl s₀ h₀ evs s g hr t ht hs).1
  rw [hex] at this
  simpa using this

/-- ghost-light form: inexact folds are more than `reset_rate` apart, so with `reset_rate > 0` the
    fold term is at most `elapsed / (2·reset_rate)`: the streams sharing `x` never exceed the
    *slightly inflated* rate `l + 1/(2·reset_rate)` (default: `l + 0.05` B/s) by more than one block
    per stream. -/
theorem shared_sum_rate (x : Nat) (l : Int) (hl : 0 < l) (s₀ : Sys) (h₀ : Fresh x l s₀) (evs : List Ev)
    (s : Sys) (g : Ghost) (hr : grun x s₀ Ghost.init evs = some (s, g))
    (t : Throttle) (ht : s.store[x]? = some t) (hs : t.start ≠ none) (hreset : 0 < t.resetRate) :
    (g.moved : Rat) ≤ ((l : Rat) + 1 / (2 * t.resetRate)) * (s.now - g.t0) + blocks x s g := by
  have inv := inv_run hl evs (inv_init h₀) hr
  have h1 := (shared_sum x l hl s₀ h₀ evs s g hr t ht hs).1
  have h2 := folds_le_of_inv inv t ht hs (le_of_lt hreset)
  have h3 : (g.folds : Rat) ≤ (s.now - g.t0) / t.resetRate := by
    rw [le_div_iff₀ hreset]; linarith
  have h4 : (g.folds : Rat) / 2 ≤ 1 / (2 * t.resetRate) * (s.now - g.t0) := by
    have : 1 / (2 * t.resetRate) * (s.now - g.t0) = (s.now - g.t0) / t.resetRate / 2 := by
      field_simp
    rw [this]
    linarith
  linarith

/-- **rate_bound.**  One stream holds `x` (a per-connection or per-user-connection limit, or any
    limit while a single connection is active).  In the state right after one of its I/Os has
    started at `T = s.now`: the bytes accounted so far are at most `l·(T − t₀)` plus half a byte
    per inexact fold — so the bytes moved are at most that plus the block just started. -/
theorem rate_bound (x : Nat) (l : Int) (hl : 0 < l) (s₀ : Sys) (h₀ : Fresh x l s₀) (evs : List Ev)
    (s : Sys) (g : Ghost) (hr : grun x s₀ Ghost.init evs = some (s, g))
    (j : Nat) (ids : List Nat) (T : Rat) (n : Nat)
    (hj : s.procs[j]? = some ⟨ids, .inflight T n⟩) (hx : x ∈ ids)
    (honly : ∀ (k : Nat) (p : Proc), s.procs[k]? = some p → x ∈ p.ids → k = j)
    (t : Throttle) (ht : s.store[x]? = some t) (hs : t.start ≠ none) :
    (g.acc : Rat) ≤ (l : Rat) * (s.now - g.t0) + (g.folds : Rat) / 2 ∧ g.moved = g.acc + n := by
  have inv := inv_run hl evs (inv_init h₀) hr
  have hjlt := lt_length_of_get _ _ _ hj
  have hzero : ∀ (F : Option Proc → Nat), (∀ q : Proc, x ∉ q.ids → F (some q) = 0) → F none = 0 →
      ∀ k : Nat, k ≠ j → F s.procs[k]? = 0 := by
    intro F hF hN k hk
    cases hp : s.procs[k]? with
    | none => exact hN
    | some p => exact hF p (fun hxp => hk (honly k p hp hxp))
  -- the only term of either sum is stream j's
  have hsumF : sumTo s.procs.length (fun k => fT x s.procs[k]?) = n := by
    have := sumTo_update s.procs.length j (fun _ => 0) (fun k => fT x s.procs[k]?) hjlt
      (fun k hk => hzero (fT x) (fun q hq => by simp [fT, hq]) rfl k hk)
    rw [sumTo_zero _ _ (fun _ _ => rfl)] at this
    have e1 : fT x s.procs[j]? = n := by rw [hj]; simp [fT, hx]
    simp only [e1] at this
    omega
  have hsumH : sumTo s.procs.length (fun k => hT x g.anch (g.a k) (g.β k) s.procs[k]?) = 0 := by
    apply sumTo_zero
    intro k _
    by_cases e : k = j
    · subst e; simp [hj, hT]
    · exact hzero (hT x g.anch (g.a k) (g.β k)) (fun q hq => by simp [hT, hq]) rfl k e
  have hacc : g.acc ≤ g.anch := by
    have := inv.anchor g.anch (le_refl _)
    rw [hsumH] at this
    omega
  refine ⟨?_, by rw [inv.moved, hsumF]⟩
  obtain ⟨t', ht', _, _, hsome, _, hanch⟩ := inv.thr
  rw [ht] at ht'; cases ht'
  cases hst : t.start with
  | none => exact absurd hst hs
  | some st =>
    obtain ⟨_, _, c, _⟩ := hsome st hst
    have hacc' : (g.acc : Rat) ≤ (g.anch : Rat) := by exact_mod_cast hacc
    have hf : (0 : Rat) ≤ (g.folds : Rat) / 2 :=
      div_nonneg (by exact_mod_cast Nat.zero_le _) (by norm_num)
    rcases hanch with a | ⟨_, b⟩
    · have : (0 : Rat) ≤ (l : Rat) * (s.now - g.t0) :=
        mul_nonneg (by exact_mod_cast le_of_lt hl) (by linarith)
      rw [a] at hacc'
      push_cast at hacc'
      linarith
    · have : (l : Rat) * (s.now - g.t0) = (l : Rat) * s.now - (l : Rat) * g.t0 := by ring
      linarith

/-- **no_extra_delay**, in observables: when `wait` ended at `u` because throttle `x` was exactly
    exhausted (`l·u = l·start + sum`, see `no_extra_delay`), the bytes accounted on `x` are
    `l·(u − t₀)` up to half a byte per inexact fold — the wait is the least one the bound allows. -/
theorem no_extra_delay_accounted (x : Nat) (l : Int) (hl : 0 < l) (s₀ : Sys) (h₀ : Fresh x l s₀)
    (evs : List Ev) (s : Sys) (g : Ghost) (hr : grun x s₀ Ghost.init evs = some (s, g))
    (t : Throttle) (ht : s.store[x]? = some t) (hs : t.start ≠ none) (u : Rat)
    (hu : (l : Rat) * u = t.debt l) :
    |(g.acc : Rat) - (l : Rat) * (u - g.t0)| ≤ (g.folds : Rat) / 2 := by
  have inv := inv_run hl evs (inv_init h₀) hr
  obtain ⟨t', ht', _, _, hsome, _, _⟩ := inv.thr
  rw [ht] at ht'; cases ht'
  cases hst : t.start with
  | none => exact absurd hst hs
  | some st =>
    obtain ⟨a, b, _, _⟩ := hsome st hst
    simp only [Throttle.debt, hst, Option.getD_some] at hu
    rw [abs_le]
    constructor <;> (have : (l : Rat) * (u - g.t0) = (l : Rat) * u - (l : Rat) * g.t0 := by ring) <;> linarith

/-- **per_connection_independent** (frame).  Whatever a stream does, the throttles it does not
    hold keep their state; together with `wait_depends_only_on_held` and the wiring below (every
    connection gets its own clone) a connection's per-connection limit is neither consumed nor
    delayed by any other connection. -/
theorem per_connection_independent (s s' : Sys) (e : Ev) (hs : s.step e = some s') (x : Nat)
    (hx : ∀ p : Proc, s.procs[evProc e]? = some p → x ∉ p.ids) :
    s'.store[x]? = s.store[x]? := by
  cases e with
  | call j w => obtain ⟨ids, _, _, rfl⟩ := step_call hs; rfl
  | «begin» j T n => obtain ⟨ids, u, _, _, _, rfl⟩ := step_begin hs; rfl
  | done j e =>
    obtain ⟨ids, st, n, hp, _, rfl⟩ := step_done hs
    exact appendAll_get_not_mem _ _ _ _ _ (hx _ hp)

/-- **per_connection_independent** (non-interference).  Stream `j` shares no throttle with the other
    streams (a connection whose only limits are its own per-connection clones).  Then striking all
    of `j`'s events from any accepted trace leaves an accepted trace in which every other stream
    goes through exactly the same phases — the same wait ends, the same I/O start stamps — and
    every throttle `j` does not hold ends in the same state: `j` neither consumes nor delays
    anybody else's allowance. -/
theorem per_connection_noninterference (s t : Sys) (evs : List Ev) (j : Nat) (jids : List Nat) (ph : Phase)
    (hj : s.procs[j]? = some ⟨jids, ph⟩)
    (hdisj : ∀ (k : Nat) (p : Proc), k ≠ j → s.procs[k]? = some p → ∀ x ∈ p.ids, x ∉ jids)
    (hr : s.run evs = some t) :
    ∃ t', s.run (evs.filter (fun e => evProc e != j)) = some t' ∧
      (∀ k : Nat, k ≠ j → t'.procs[k]? = t.procs[k]?) ∧ (∀ x : Nat, x ∉ jids → t'.store[x]? = t.store[x]?) := by
  obtain ⟨t', h1, h2⟩ := erased_run (j := j) (jids := jids) evs
    ⟨fun _ _ => rfl, ⟨ph, hj⟩, fun _ _ => rfl, le_refl _, hdisj⟩ hr
  exact ⟨t', h1, h2.procs, h2.store⟩

example : (Sys.run ⟨[Throttle.new (some 4), Throttle.new (some 1), Throttle.new (some 2)],
      [⟨[0, 1], .idle⟩, ⟨[2], .idle⟩], 0⟩
    [.call 0 0, .call 1 0, .begin 1 0 9, .begin 0 0 8, .done 1 1, .done 0 2, .call 0 2, .begin 0 8 1]).isSome = true ∧
    (Sys.run ⟨[Throttle.new (some 4), Throttle.new (some 1), Throttle.new (some 2)],
      [⟨[0, 1], .idle⟩, ⟨[2], .idle⟩], 0⟩
    [.call 0 0, .begin 0 0 8, .done 0 2, .call 0 2, .begin 0 8 1]).isSome = true := by
  decide +kernel

theorem wait_depends_only_on_held (store store' : Store) (ids : List Nat) (now : Rat)
    (h : ∀ i ∈ ids, store[i]? = store'[i]?) : waitAll store ids now = waitAll store' ids now :=
  waitAll_congr store store' ids now h

/-! ### the sequential stream loop is one of those traces -/

/-- the events of `runStream` (what the correspondence run compares start times with) -/
def streamEvents (store : Store) (ids : List Nat) (now : Rat) : List IOStep → List Ev
  | [] => []
  | st :: rest =>
    let called := now + st.gap
    let start := waitAll store ids called
    .call 0 called :: .begin 0 start st.n :: .done 0 (start + st.dur) ::
      streamEvents (appendAll store ids st.n start) ids (start + st.dur) rest

/-- `runStream` is the run of `Sys` on those events: same final store, every event accepted -/
theorem runStream_sim (store : Store) (ids : List Nat) (now0 now : Rat) (steps : List IOStep)
    (hnow : now0 ≤ now) (hpos : ∀ st ∈ steps, 0 ≤ st.dur ∧ 0 ≤ st.gap) :
    ∃ tf, Sys.run ⟨store, [⟨ids, .idle⟩], now0⟩ (streamEvents store ids now steps) =
      some ⟨(runStream store ids now steps).2.1, [⟨ids, .idle⟩], tf⟩ := by
  induction steps generalizing store now0 now with
  | nil => exact ⟨now0, rfl⟩
  | cons st rest ih =>
    obtain ⟨hd, hg⟩ := hpos st List.mem_cons_self
    have h1 : now0 ≤ now + st.gap := by linarith
    have h2 : now + st.gap ≤ waitAll store ids (now + st.gap) := waitAll_ge_now _ _ _
    have h3 : waitAll store ids (now + st.gap) ≤ waitAll store ids (now + st.gap) + st.dur := by linarith
    obtain ⟨tf, htf⟩ := ih (appendAll store ids st.n (waitAll store ids (now + st.gap)))
      (waitAll store ids (now + st.gap) + st.dur) (waitAll store ids (now + st.gap) + st.dur) (le_refl _)
      (fun s hs => hpos s (List.mem_cons_of_mem _ hs))
    refine ⟨tf, ?_⟩
    simp only [streamEvents, runStream, Sys.run, Sys.step, List.getElem?_cons_zero, h1, h2, h3, if_true,
      setPhase, updAt, le_refl, and_self]
    exact htf

/-- every (chunk size, duration ≥ 0, gap ≥ 0) trace of one stream is an accepted event trace, so
    `rate_bound`, `shared_sum`, … speak about all of them -/
theorem stream_trace_accepted (x : Nat) (store : Store) (ids : List Nat) (now0 now : Rat)
    (steps : List IOStep) (hnow : now0 ≤ now) (hpos : ∀ st ∈ steps, 0 ≤ st.dur ∧ 0 ≤ st.gap) :
    ∃ s g, grun x ⟨store, [⟨ids, .idle⟩], now0⟩ Ghost.init (streamEvents store ids now steps) = some (s, g) ∧
      s.store = (runStream store ids now steps).2.1 := by
  obtain ⟨tf, h⟩ := runStream_sim store ids now0 now steps hnow hpos
  have hf := grun_fst x ⟨store, [⟨ids, .idle⟩], now0⟩ Ghost.init (streamEvents store ids now steps)
  rw [h] at hf
  cases hg : grun x ⟨store, [⟨ids, .idle⟩], now0⟩ Ghost.init (streamEvents store ids now steps) with
  | none => rw [hg] at hf; cases hf
  | some p =>
    rw [hg] at hf
    simp only [Option.map_some, Option.some.injEq] at hf
    exact ⟨p.1, p.2, rfl, by rw [hf]⟩

example : (runStream [⟨some 4, 10, none, 0⟩] [0] 0
    [⟨8, 1/2, 0⟩, ⟨8, 1/2, 0⟩, ⟨8, 0, 12⟩, ⟨100, 0, 0⟩, ⟨4, 0, 0⟩]).1.map (·.start) = [0, 2, 29/2, 29/2, 31] := by
  decide +kernel

/-! ### the literal bound (no fold term) is false for the pinned code -/

/-- limit 1 B/s, `reset_rate = 1`, one stream -/
def driftSys : Sys := ⟨[Throttle.new (some 1) 1], [⟨[0], .idle⟩], 0⟩

/-- 1 byte at t=0; four empty reads 1.5 s apart (each folds: `round(1.5) = 2`); then one-byte reads
    back to back.  Eight of them start at t=6, the ninth at t=7. -/
def driftEvs : List Ev := [
  .call 0 (0),
  .begin 0 (0) 1,
  .done 0 (0),
  .call 0 (3/2),
  .begin 0 (3/2) 0,
  .done 0 (3/2),
  .call 0 (6/2),
  .begin 0 (6/2) 0,
  .done 0 (6/2),
  .call 0 (9/2),
  .begin 0 (9/2) 0,
  .done 0 (9/2),
  .call 0 (12/2),
  .begin 0 (12/2) 0,
  .done 0 (12/2),
  .call 0 (6),
  .begin 0 (6) 1,
  .done 0 (6),
  .call 0 (6),
  .begin 0 (6) 1,
  .done 0 (6),
  .call 0 (6),
  .begin 0 (6) 1,
  .done 0 (6),
  .call 0 (6),
  .begin 0 (6) 1,
  .done 0 (6),
  .call 0 (6),
  .begin 0 (6) 1,
  .done 0 (6),
  .call 0 (6),
  .begin 0 (6) 1,
  .done 0 (6),
  .call 0 (6),
  .begin 0 (6) 1,
  .done 0 (6),
  .call 0 (6),
  .begin 0 (6) 1,
  .done 0 (6),
  .call 0 6,
  .begin 0 7 1]

theorem driftSys_fresh : Fresh 0 1 driftSys := by
  refine ⟨?_, ⟨Throttle.new (some 1) 1, rfl, rfl, rfl, rfl⟩⟩
  intro j p hp
  cases j with
  | zero => simp [driftSys] at hp; subst hp; exact ⟨rfl, by simp⟩
  | succ j => simp [driftSys] at hp

/-- **Negative witness (finding fold-rounding-drift).**  On this accepted trace 10 bytes have
    started by t=7 although `limit·(t − t₀) = 7` and only a 1-byte block is in flight: the stream
    runs 2 bytes ahead of the literal bound, half a byte for each of the four folds.
    (`shared_sum` allows exactly `folds/2 = 2` more.) -/
theorem literal_bound_fails :
    ∃ s g, grun 0 driftSys Ghost.init driftEvs = some (s, g) ∧
      (1 : Rat) * (s.now - g.t0) + blocks 0 s g < g.moved ∧
      g.moved = 10 ∧ s.now = 7 ∧ g.t0 = 0 ∧ blocks 0 s g = 1 ∧ g.folds = 4 := by
  have h : (grun 0 driftSys Ghost.init driftEvs).map (fun p =>
      decide ((1 : Rat) * (p.1.now - p.2.t0) + blocks 0 p.1 p.2 < p.2.moved ∧
        p.2.moved = 10 ∧ p.1.now = 7 ∧ p.2.t0 = 0 ∧ blocks 0 p.1 p.2 = 1 ∧ p.2.folds = 4)) = some true := by
    decide +kernel
  cases hr : grun 0 driftSys Ghost.init driftEvs with
  | none => rw [hr] at h; cases h
  | some p =>
    rw [hr] at h
    simp only [Option.map_some, Option.some.injEq, decide_eq_true_eq] at h
    exact ⟨p.1, p.2, rfl, h⟩

/-- the hypotheses of `shared_sum` / `rate_bound` are satisfiable: the same trace (the bound with
    the fold term is met with equality there) -/
example : ∃ s g t, grun 0 driftSys Ghost.init driftEvs = some (s, g) ∧ s.store[0]? = some t ∧
    t.start ≠ none ∧ (g.moved : Rat) = (1 : Rat) * (s.now - g.t0) + (g.folds : Rat) / 2 + blocks 0 s g := by
  have h : (grun 0 driftSys Ghost.init driftEvs).map (fun p =>
      decide ((p.1.store[0]?.map (fun t => decide (t.start ≠ none))) = some true ∧
        (p.2.moved : Rat) = (1 : Rat) * (p.1.now - p.2.t0) + (p.2.folds : Rat) / 2 + blocks 0 p.1 p.2)) = some true := by
    decide +kernel
  cases hr : grun 0 driftSys Ghost.init driftEvs with
  | none => rw [hr] at h; cases h
  | some p =>
    rw [hr] at h
    simp only [Option.map_some, Option.some.injEq, decide_eq_true_eq] at h
    obtain ⟨h1, h2⟩ := h
    cases ht : p.1.store[0]? with
    | none => rw [ht] at h1; cases h1
    | some t =>
      rw [ht] at h1
      simp only [Option.map_some, Option.some.injEq, decide_eq_true_eq] at h1
      exact ⟨p.1, p.2, t, rfl, ht, h1, h2⟩

/-- two streams sharing one 4 B/s throttle, both started before either was accounted:
    an accepted trace where the one-block-per-stream term is needed -/
example : (Sys.run ⟨[Throttle.new (some 4)], [⟨[0], .idle⟩, ⟨[0], .idle⟩], 0⟩
    [.call 0 0, .begin 0 0 8, .call 1 1, .begin 1 1 8, .done 0 2, .done 1 2, .call 0 2, .call 1 2,
     .begin 0 4 1, .begin 1 4 1]).isSome = true := by
  decide +kernel

/-- an event that starts an I/O before its wait is over is rejected -/
example : (Sys.run ⟨[Throttle.new (some 4)], [⟨[0], .idle⟩], 0⟩
    [.call 0 0, .begin 0 0 8, .done 0 0, .call 0 0, .begin 0 1 8]).isSome = false := by
  decide +kernel

/-! ## wiring -/

/-- the call sites of /repo that decide which throttle objects a stream holds, as transcribed in
    `ServerW` / `ClientW` / `StreamThrottle.fromLimits` / `clone` -/
def modelledWiring : List (String × String) := [
  ("client.__init__:self.throttle", "StreamThrottle.from_limits(read_speed_limit, write_speed_limit)"),
  ("client.streams:throttles", "BaseClient.connect: {'_': self.throttle} ;; Client.get_stream: {'_': self.throttle}"),
  ("common.StreamThrottle.clone", "return StreamThrottle(read=self.read.clone(), write=self.write.clone())"),
  ("common.StreamThrottle.from_limits", "return cls(read=Throttle(limit=read_speed_limit), write=Throttle(limit=write_speed_limit))"),
  ("common.Throttle.__init__:defaults", "limit=None, reset_rate=10"),
  ("common.Throttle.clone", "return Throttle(limit=self._limit, reset_rate=self.reset_rate)"),
  ("common.ThrottleStreamIO.__init__", "self.throttles = throttles"),
  ("server.User.__init__:self.read_speed_limit", "read_speed_limit"),
  ("server.User.__init__:self.read_speed_limit_per_connection", "read_speed_limit_per_connection"),
  ("server.User.__init__:self.write_speed_limit", "write_speed_limit"),
  ("server.User.__init__:self.write_speed_limit_per_connection", "write_speed_limit_per_connection"),
  ("server.__init__:self.throttle", "StreamThrottle.from_limits(read_speed_limit, write_speed_limit)"),
  ("server.__init__:self.throttle_per_connection", "StreamThrottle.from_limits(read_speed_limit_per_connection, write_speed_limit_per_connection)"),
  ("server.__init__:self.throttle_per_user", "{}"),
  ("server.data-connections:throttles", "pasv: connection.command_connection.throttles ;; epsv: connection.command_connection.throttles"),
  ("server.dispatcher:streams", "1"),
  ("server.dispatcher:throttles", "server_global=self.throttle ;; server_per_connection=self.throttle_per_connection.clone()"),
  ("server.user:per-user-init", "connection.user not in self.throttle_per_user => throttle = StreamThrottle.from_limits(connection.user.read_speed_limit, connection.user.write_speed_limit) ; self.throttle_per_user[connection.user] = throttle"),
  ("server.user:update", "user_global=self.throttle_per_user[connection.user] ;; user_per_connection=StreamThrottle.from_limits(connection.user.read_speed_limit_per_connection, connection.user.write_speed_limit_per_connection)"),
  ("server.user:update-positional", ""),
  ("server.user:update-target", "connection.command_connection.throttles.update")]

/-- **wiring_sites_as_modelled.**  The table regenerated from the live source on every run is the
    one the model was written against: server-wide pair shared, per-connection pair cloned per
    dispatcher, per-user pair looked up by user, per-user-connection pair fresh per login, PASV/EPSV
    data streams given the command stream's own dict, client streams all given `{"_": self.throttle}`,
    `reset_rate` default 10. -/
theorem wiring_sites_as_modelled : Generated.throttleWiring = modelledWiring := by decide +kernel

/-- **wiring: shared and cloned.**  After any sequence of connections and (re-)logins, every
    connection's dict — which its data streams alias — holds the one server-wide pair, and the
    per-connection pairs of two different connections are four different throttle objects, none of
    them the server-wide pair or the prototype they were cloned from.  With
    `per_connection_independent` this is the independence of per-connection limits; with
    `shared_sum` (all connections hold throttle 0/1) it is the server-wide bound on their sum. -/
theorem wiring_shared_and_cloned (r w rc wc : Option Int) (ops : List WireOp) :
    let sv := ops.foldl ServerW.apply (ServerW.init r w rc wc)
    (∀ (c : Nat) (d : ThrottleDict), sv.conns[c]? = some d → ("server_global", sv.throttle) ∈ d) ∧
    (∀ (c c' : Nat) (d d' : ThrottleDict) (pc pc' : StreamThrottle), c ≠ c' →
      sv.conns[c]? = some d → sv.conns[c']? = some d' →
      ("server_per_connection", pc) ∈ d → ("server_per_connection", pc') ∈ d' →
      pc.read ≠ pc'.read ∧ pc.read ≠ pc'.write ∧ pc.write ≠ pc'.read ∧ pc.write ≠ pc'.write ∧
      sv.throttle.write < pc.read ∧ sv.perConnection.write < pc.read) := by
  intro sv
  have h : WiredOK sv := wired_reachable r w rc wc ops
  obtain ⟨hg1, hg2, _⟩ := h.glob
  refine ⟨fun c d hd => by rw [hg1]; exact (h.conn c d hd).1, ?_⟩
  intro c c' d d' pc pc' hne hd hd' hp hp'
  obtain ⟨_, _, q, _, q2, q3, q4, _⟩ := h.conn c d hd
  obtain ⟨_, _, q', _, q2', q3', q4', _⟩ := h.conn c' d' hd'
  have e1 : pc = q := q2 _ hp rfl
  have e2 : pc' = q' := q2' _ hp' rfl
  subst e1; subst e2
  rw [hg1, hg2]
  rcases Nat.lt_or_gt_of_ne hne with hlt | hgt
  · have := h.apart c c' d d' pc pc' hlt hd hd' hp hp'
    simp only
    omega
  · have := h.apart c' c d' d pc' pc hgt hd' hd hp' hp
    simp only
    omega

/-- two connections of the same user: the global pair and the user pair are shared, the other two
    levels are private — read off the model on a concrete history -/
example :
    let sv := [WireOp.connect, .connect, .login 0 7 ⟨some 10, none, none, some 5⟩,
      .login 1 7 ⟨some 10, none, none, some 5⟩].foldl ServerW.apply (ServerW.init (some 100) none none (some 50))
    (sv.ids 0 .write, sv.ids 1 .write) = ([1, 5, 9, 11], [1, 7, 9, 13]) := by
  decide +kernel

/-- **fact_wait_on_every_limited_throttle**: as regenerated from `common.py`, `ThrottleStreamIO.wait` starts a wait for
    EVERY limited throttle of the stream and awaits them all - what `tightest_governs` and `shared_sum` start from (a
    stream that waited only for its numerically smallest limit would let a looser, SHARED limit be overrun by the sum of
    the connections: seeded changes C15_B, C15_K, C15_S) -/
theorem fact_wait_on_every_limited_throttle : Generated.throttleWaitOnEveryLimited = true := by decide

end C15
