/-
  C01  Transferred bytes are exact (STOR / APPE / RETR, whole or from a restart offset).

  Statements only (proofs go through Lemmas/Transfer.lean and Lemmas/TransferSession.lean).
  Everything is quantified over ALL payloads, old contents, offsets, block sizes > 0 and chunkings — the
  chunking is chosen by the network (segmentation, timing) and by the client's write sizes; the theorems
  say it cannot matter.  The model is `Model/Transfer.lean` over `Py/BytesIO.lean`.
-/
import AioftpModel.Generated.Transfer
import AioftpModel.Lemmas.Transfer
import AioftpModel.Lemmas.TransferSession

namespace C01
open Model Model.Transfer Py

/-! ## upload -/

/-- **stor_exact.**  Whatever the old content, verb (STOR / APPE), restart offset, block size and whatever valid
    chunking of the payload the successive `read(block_size)` calls return before the EOF read (and whatever
    reads would follow it), the target holds exactly `storSpec` afterwards — provided the open succeeds (it
    always does except `r+b`, i.e. a restart offset, on a missing file, see `stor_offset_missing_file`). -/
theorem stor_exact (be : Backend) (old : Option Bytes) (v : UpVerb) (k bs : Nat) (payload : Bytes)
    (chunks rest : List Bytes) (hv : ValidChunking bs payload chunks)
    (hopen : ¬ (old = none ∧ k ≠ 0)) :
    storResult be old v k (chunks ++ [] :: rest) = some (storSpec (old.getD []) v k payload) := by
  rw [storResult_eq_spec be old v k _ hopen, iterByBlock_of_nonempty chunks rest (fun c hc => (hv.2 c hc).1), hv.1]

example : ValidChunking 3 [1, 2, 3, 4, 5, 6, 7] [[1, 2, 3], [4], [5, 6], [7]] := by decide
example : storResult .posix (some [9, 9, 9, 9, 9, 9, 9, 9, 9, 9]) .stor 2 ([[1, 2, 3], [4], [5, 6], [7]] ++ [] :: [])
    = some [9, 9, 1, 2, 3, 4, 5, 6, 7, 9] := by decide

/-- the three readings of the specification, spelled out -/
theorem stor_whole (be : Backend) (old : Option Bytes) (bs : Nat) (payload : Bytes) (chunks : List Bytes)
    (hv : ValidChunking bs payload chunks) :
    storResult be old .stor 0 (chunks ++ [[]]) = some payload := by
  rw [stor_exact be old .stor 0 bs payload chunks [] hv (by simp)]; rfl

theorem appe_whole (be : Backend) (old : Option Bytes) (bs : Nat) (payload : Bytes) (chunks : List Bytes)
    (hv : ValidChunking bs payload chunks) :
    storResult be old .appe 0 (chunks ++ [[]]) = some (old.getD [] ++ payload) := by
  rw [stor_exact be old .appe 0 bs payload chunks [] hv (by simp)]; rfl

theorem stor_at_offset (be : Backend) (old : Bytes) (v : UpVerb) (k bs : Nat) (hk : 0 < k) (payload : Bytes)
    (hp : payload ≠ []) (chunks : List Bytes) (hv : ValidChunking bs payload chunks) :
    storResult be (some old) v k (chunks ++ [[]])
      = some ((old ++ zeros (k - old.length)).take k ++ payload ++ old.drop (k + payload.length)) := by
  rw [stor_exact be (some old) v k bs payload chunks [] hv (by simp)]
  have : k ≠ 0 := by omega
  simp [storSpec, this, hp]

example : storResult .memory (some [1, 2]) .stor 5 [[7, 8], [9], []] = some [1, 2, 0, 0, 0, 7, 8, 9] := by decide

/-- an EMPTY payload at a restart offset changes nothing — not even beyond the end (no write, so no NUL fill);
    the formula `take k (old ++ zeros) ++ payload ++ drop …` alone would predict a NUL-extended file -/
theorem stor_empty_at_offset_unchanged (be : Backend) (old : Bytes) (v : UpVerb) (k : Nat) (hk : 0 < k)
    (rest : List Bytes) :
    storResult be (some old) v k ([] :: rest) = some old := by
  rw [show ([] : Bytes) :: rest = ([] : List Bytes) ++ [] :: rest from rfl,
    stor_exact be (some old) v k 1 [] [] rest (by simp [ValidChunking]) (by simp)]
  have : k ≠ 0 := by omega
  simp [storSpec, this]

theorem naive_offset_formula_is_not_what_happens :
    storResult .memory (some [1, 2]) .stor 5 [[]] = some [1, 2] ∧ naiveOffsetSpec [1, 2] 5 [] = [1, 2, 0, 0, 0] := by
  decide

/-- APPE with a restart offset is NOT an append: the mode becomes `r+b` and the bytes go to the offset,
    exactly as for STOR with the same offset -/
theorem appe_with_offset_overwrites (be : Backend) (old : Option Bytes) (k : Nat) (hk : 0 < k) (reads : List Bytes) :
    storResult be old .appe k reads = storResult be old .stor k reads := by
  have : k ≠ 0 := by omega
  simp [storResult, storHandle, fileMode, this]

example : storResult .memory (some [1, 2, 3, 4]) .appe 1 [[9], []] = some [1, 9, 3, 4] := by decide

/-- upload at an offset to a file that does not exist: on EVERY shipped backend the open fails (reply 451) and
    nothing is stored (on the pinned tree `MemoryPathIO` created the file and NUL-filled up to the offset —
    finding F7-c, repaired in /repo) -/
theorem stor_offset_missing_file (be : Backend) (v : UpVerb) (k : Nat) (hk : 0 < k) (reads : List Bytes) :
    storResult be none v k reads = none := by
  have hk' : k ≠ 0 := by omega
  simp [storResult, storHandle_offset_none be v k hk']

example : storResult .memory none .stor 3 [[7], []] = none ∧ storResult .memory none .stor 0 [[7], []] = some [7] := by
  decide

/-- **chunking_irrelevant.**  Any two valid chunkings of the same payload (different client write sizes,
    segmentations, delays; even different block sizes) store the same bytes -/
theorem chunking_irrelevant (be : Backend) (old : Option Bytes) (v : UpVerb) (k bs₁ bs₂ : Nat) (payload : Bytes)
    (c₁ c₂ r₁ r₂ : List Bytes) (h₁ : ValidChunking bs₁ payload c₁) (h₂ : ValidChunking bs₂ payload c₂) :
    storResult be old v k (c₁ ++ [] :: r₁) = storResult be old v k (c₂ ++ [] :: r₂) := by
  rw [storResult_eq_writeAt, storResult_eq_writeAt,
    iterByBlock_of_nonempty c₁ r₁ (fun c hc => (h₁.2 c hc).1),
    iterByBlock_of_nonempty c₂ r₂ (fun c hc => (h₂.2 c hc).1), h₁.1, h₂.1]

/-- **client_write_chunking_irrelevant.**  Two clients that send the same bytes in differently sized `write` calls
    (empty writes included) leave the same file, whatever the network makes of either byte stream -/
theorem client_write_chunking_irrelevant (be : Backend) (old : Option Bytes) (v : UpVerb) (k bs : Nat)
    (ws₁ ws₂ : List Bytes) (hw : ws₁.flatten = ws₂.flatten) (c₁ c₂ r₁ r₂ : List Bytes)
    (h₁ : ValidChunking bs ws₁.flatten c₁) (h₂ : ValidChunking bs ws₂.flatten c₂) :
    storResult be old v k (c₁ ++ [] :: r₁) = storResult be old v k (c₂ ++ [] :: r₂) :=
  chunking_irrelevant be old v k bs bs ws₁.flatten c₁ c₂ r₁ r₂ h₁ (hw ▸ h₂)

example : ([[1], [], [2, 3]] : List Bytes).flatten = ([[1, 2], [3]] : List Bytes).flatten := by decide

example : ValidChunking 8 [1, 2, 3, 4, 5] [[1], [2, 3, 4, 5]] ∧ ValidChunking 2 [1, 2, 3, 4, 5] [[1, 2], [3, 4], [5]] := by
  decide

/-- **iter_stops_only_at_eof.**  The block iterator yields every read result up to, and stops exactly at, the
    first EMPTY one: a short (non-empty) read never ends it, nothing after the empty read is consumed.
    (asyncio's `StreamReader.read(n)` and `BytesIO.read(n)`, n > 0, are empty only at EOF.) -/
theorem iter_stops_only_at_eof (reads : List Bytes) :
    iterByBlock reads = reads.takeWhile (fun d => !d.isEmpty)
    ∧ (∀ d rest, d ≠ [] → iterByBlock (d :: rest) = d :: iterByBlock rest)
    ∧ (∀ rest, iterByBlock ([] :: rest) = []) :=
  ⟨iterByBlock_eq_takeWhile reads, iterByBlock_cons_nonempty, iterByBlock_cons_nil⟩

example : iterByBlock [[1, 2, 3], [4], [5, 6], [], [7]] = [[1, 2, 3], [4], [5, 6]] := by decide

/-! ## download -/

/-- **retr_exact.**  For every file, offset and block size > 0 the download loop terminates (it is a total Lean
    function: `retrLoop` passed the termination checker with measure `length − position`) and the blocks it
    writes concatenate to exactly the file from the offset on; no block is empty, none exceeds the block size,
    all but the last are full, and their number is ⌈(length − offset) / bs⌉. -/
theorem retr_exact (file : Bytes) (k bs : Nat) (hbs : 0 < bs) :
    ∃ blocks, retrBlocks (some file) k bs = some blocks
      ∧ blocks.flatten = file.drop k
      ∧ (∀ b ∈ blocks, b ≠ [] ∧ b.length ≤ bs)
      ∧ (∀ b ∈ blocks.dropLast, b.length = bs)
      ∧ blocks.length = (file.length - k + bs - 1) / bs := by
  by_cases hk : k = 0
  · subst hk
    exact ⟨_, rfl, by simpa [BytesIO.ofBytes] using retrLoop_flatten (BytesIO.ofBytes file) bs hbs,
      retrLoop_blocks _ _, retrLoop_full _ _, by simpa [BytesIO.ofBytes] using retrLoop_length (BytesIO.ofBytes file) bs hbs⟩
  · refine ⟨retrLoop ((BytesIO.ofBytes file).seek k) bs, by simp [retrBlocks, openFile, hk], ?_, retrLoop_blocks _ _,
      retrLoop_full _ _, ?_⟩
    · simpa [BytesIO.ofBytes, BytesIO.seek] using retrLoop_flatten ((BytesIO.ofBytes file).seek k) bs hbs
    · simpa [BytesIO.ofBytes, BytesIO.seek] using retrLoop_length ((BytesIO.ofBytes file).seek k) bs hbs

example : retrBlocks (some [1, 2, 3, 4, 5, 6, 7, 8, 9, 10]) 3 3 = some [[4, 5, 6], [7, 8, 9], [10]] := by
  simp only [retrBlocks, openFile, Option.map_some, BytesIO.ofBytes, BytesIO.seek]
  repeat (rw [retrLoop]; simp [BytesIO.read])

/-- a restart offset at or beyond the end delivers nothing (and still completes) -/
theorem retr_offset_beyond_end (file : Bytes) (k bs : Nat) (hbs : 0 < bs) (hk : file.length ≤ k) :
    (retrBlocks (some file) k bs).map List.flatten = some [] := by
  obtain ⟨blocks, hb, hf, _⟩ := retr_exact file k bs hbs
  rw [hb, Option.map_some, hf, List.drop_eq_nil_of_le hk]

/-- **client_read_chunking_irrelevant.**  Whatever read size the client uses and however the network cuts the
    blocks the server wrote, iterating the client's reads until the first empty one collects exactly what was sent -/
theorem client_read_chunking_irrelevant (sent : Bytes) (n : Nat) (reads rest : List Bytes)
    (hv : ValidChunking n sent reads) : clientCollect (reads ++ [] :: rest) = sent := by
  unfold clientCollect
  rw [iterByBlock_of_nonempty reads rest (fun c hc => (hv.2 c hc).1), hv.1]

/-- **roundtrip.**  download ∘ upload = id, for all chunkings on both legs, all block sizes on both sides;
    from a restart offset `k` the download is `payload.drop k` -/
theorem roundtrip (be : Backend) (old : Option Bytes) (payload : Bytes) (bsUp bsDown nClient k : Nat)
    (hbs : 0 < bsDown) (up upRest : List Bytes) (hup : ValidChunking bsUp payload up) :
    storResult be old .stor 0 (up ++ [] :: upRest) = some payload
    ∧ ∃ blocks, retrBlocks (some payload) k bsDown = some blocks
      ∧ ∀ down downRest, ValidChunking nClient blocks.flatten down →
          clientCollect (down ++ [] :: downRest) = payload.drop k := by
  obtain ⟨blocks, hb, hf, _⟩ := retr_exact payload k bsDown hbs
  refine ⟨?_, blocks, hb, ?_⟩
  · rw [stor_exact be old .stor 0 bsUp payload up upRest hup (by simp)]; rfl
  · intro down downRest hd
    rw [client_read_chunking_irrelevant _ nClient down downRest hd, hf]

example : ValidChunking 4 ([1, 2, 3, 4, 5].drop 2) [[3], [4, 5]] := by decide

/-! ## completion reply -/

/-- **completion_after_close.**  In the event order of an upload worker the `226` is the LAST event: every
    `write`, the close of the file and the close of the data connection precede it (the stream is closed last:
    `async with stream, file_out` exits right to left), no other reply is queued before it, and the writes are
    exactly the received blocks in order.  If the open fails the only events are the failed open, the close of
    the data connection and `451`. -/
theorem completion_after_close (be : Backend) (old : Option Bytes) (v : UpVerb) (k : Nat) (reads : List Bytes) :
    (∃ pre, storTrace be old v k reads = pre ++ [.fileClose, .streamClose, .reply 226]
        ∧ (∀ e ∈ pre, e.isReply = false)
        ∧ pre.filterMap Ev.writeSize = (iterByBlock reads).map List.length
        ∧ (storResult be old v k reads).isSome)
    ∨ (storTrace be old v k reads = [.openFailed (fileMode v.mode k), .streamClose, .reply 451] ∧ storResult be old v k reads = none) := by
  unfold storTrace storResult storHandle
  cases h : openFile be old (fileMode v.mode k) with
  | none => right; simp
  | some f =>
    left
    refine ⟨[.open_ (fileMode v.mode k)] ++ (if k ≠ 0 then [.seek k] else []) ++ storLoopEvents reads, by simp, ?_, ?_, by simp⟩
    · intro e he
      simp only [List.mem_append, List.mem_cons, List.not_mem_nil, or_false] at he
      rcases he with (rfl | he) | he
      · rfl
      · by_cases hk : k = 0 <;> simp [hk] at he; subst he; rfl
      · exact storLoopEvents_no_reply reads e he
    · rw [List.filterMap_append, List.filterMap_append, storLoopEvents_writes]
      by_cases hk : k = 0 <;> simp [hk, Ev.writeSize, List.filterMap]

example : storTrace .memory (some [1]) .stor 2 [[7, 8], [9], []] =
    [.open_ .rpb, .seek 2, .streamRead 2, .fileWrite 2, .streamRead 1, .fileWrite 1, .streamRead 0,
      .fileClose, .streamClose, .reply 226] := by decide

/-- the same for the download worker: all reads of the file, all writes to the data connection, its close and
    the close of the file precede the `226` -/
theorem retr_completion_after_close (file : Bytes) (k bs : Nat) :
    ∃ pre, retrTrace (some file) k bs = pre ++ [.fileClose, .streamClose, .reply 226] ∧ ∀ e ∈ pre, e.isReply = false := by
  unfold retrTrace
  simp only [openFile, Option.map_some]
  refine ⟨_, by rw [List.append_assoc], ?_⟩
  intro e he
  simp only [List.mem_append, List.mem_cons, List.not_mem_nil, or_false] at he
  rcases he with (rfl | he) | he
  · rfl
  · by_cases hk : k = 0 <;> simp [hk] at he; subst he; rfl
  · exact retrLoopEvents_no_reply _ _ e he

/-! ## agreement with the sequential session model, and what later sessions see -/

/-- the STOR/APPE step of `Model.Session.worker` stores exactly `storResult` (MemoryPathIO), for every valid
    chunking of the payload, and answers 226 -/
theorem session_worker_agrees (w : Session.World) (s : Session.SState) (p : Path) (v : UpVerb) (bs : Nat)
    (payload : Bytes) (chunks rest : List Bytes) (hv : ValidChunking bs payload chunks)
    (hdc : s.dataConn = true) (hp : p ≠ []) (hpar : w.fs.isDir p.dropLast = true) (hnd : w.fs.lookup p ≠ some .dir)
    (hex : Session.xferOffset v.toVerb s ≠ 0 → oldAt w.fs p ≠ none) :
    oldAt (Session.worker w s p v.toVerb payload).1.fs p
        = storResult .memory (oldAt w.fs p) v (Session.xferOffset v.toVerb s) (chunks ++ [] :: rest)
      ∧ (Session.worker w s p v.toVerb payload).2.2.replies = [226] :=
  worker_stor_agrees (Session.xferOffset v.toVerb s) w s p v payload _
    (by rw [iterByBlock_of_nonempty chunks rest (fun c hc => (hv.2 c hc).1), hv.1]) hdc hp hpar hnd hex

/-- **later_sessions_see_upload.**  After the upload step, a RETR by ANY session state (another user, another
    working directory, any offset handed to its transfer) on the same tree delivers exactly the specified
    content from that offset on, and the size a later `stat` reports (`Fs.size`) is its length -/
theorem later_sessions_see_upload (w : Session.World) (s s₂ : Session.SState) (p : Path) (v : UpVerb)
    (payload : Bytes) (hdc : s.dataConn = true) (hdc₂ : s₂.dataConn = true) (hp : p ≠ [])
    (hpar : w.fs.isDir p.dropLast = true) (hnd : w.fs.lookup p ≠ some .dir)
    (hex : Session.xferOffset v.toVerb s ≠ 0 → oldAt w.fs p ≠ none) :
    let w' := (Session.worker w s p v.toVerb payload).1
    let spec := storSpec ((oldAt w.fs p).getD []) v (Session.xferOffset v.toVerb s) payload
    (Session.worker w' s₂ p .retr []).2.2.data = spec.drop (Session.xferOffset .retr s₂)
      ∧ (Session.worker w' s₂ p .retr []).2.2.replies = [226]
      ∧ w'.fs.size p = spec.length := by
  intro w' spec
  have h := (worker_stor_agrees (Session.xferOffset v.toVerb s) w s p v payload [payload, []]
    (by by_cases hpl : payload = [] <;> simp [iterByBlock, hpl]) hdc hp hpar hnd hex).1
  rw [storResult_eq_spec .memory _ v _ _ (by intro ⟨a, b⟩; exact hex b a)] at h
  have hflat : (iterByBlock [payload, []]).flatten = payload := by
    by_cases hpl : payload = [] <;> simp [iterByBlock, hpl]
  rw [hflat] at h
  have hl : w'.fs.lookup p = some (.file spec) := oldAt_eq_some h
  refine ⟨?_, ?_, ?_⟩
  · simp [Session.worker, Session.workerK, hdc₂, Fs.openFile, hl]
  · simp [Session.worker, Session.workerK, hdc₂, Fs.openFile, hl]
  · simp [Fs.size, hl]

/-! ## generated-table obligations: the shape of the live source the model transcribes
    (re-decided by the kernel on every run against what `harness/extract_transfer.py` reads from /repo) -/

open Generated.Transfer in
/-- STOR opens with `wb`, APPE with `ab`, a truthy restart offset turns either into `r+b`; RETR opens `rb` -/
theorem generated_modes :
    Mode.ofString storDefaultMode = some UpVerb.stor.mode ∧ Mode.ofString appeMode = some UpVerb.appe.mode
    ∧ storModeSel = ("connection.transfer_offset", "'r+b'", "mode") ∧ retrModeSel = ("", "'rb'", "'rb'") := by decide

open Generated.Transfer in
/-- `async with stream, file` in both workers: the stream is entered first and closed last (so the data
    connection is closed whatever the file's open/close does; the pinned tree had them the other way round,
    finding F6 — repaired in /repo a864f95) -/
theorem generated_with_order :
    storWithItems = ["stream", "file"] ∧ retrWithItems = ["stream", "file"] := by decide

open Generated.Transfer in
/-- the 226 is the first statement after the `async with` and no reply is queued before or inside it -/
theorem generated_reply_after_with :
    storAfterWith.head? = some "response:226" ∧ storRepliesInsideWith = [] ∧ storRepliesBeforeWith = []
    ∧ retrAfterWith.head? = some "response:226" ∧ retrRepliesInsideWith = [] ∧ retrRepliesBeforeWith = [] := by decide

open Generated.Transfer in
/-- the loop bodies: conditional seek to the offset handed over at dispatch (`transfer_offset`), then block iteration with `connection.block_size` -/
theorem generated_loop_bodies :
    storWithBody = ["if connection.transfer_offset:", "    await file.seek(connection.transfer_offset)",
      "async for data in stream.iter_by_block(connection.block_size):", "    await file.write(data)"]
    ∧ retrWithBody = ["if connection.transfer_offset:", "    await file.seek(connection.transfer_offset)",
      "async for data in file.iter_by_block(connection.block_size):", "    await stream.write(data)"] := by decide

open Generated.Transfer in
/-- closing a stream is the writer's own `close()` and nothing else: what the transport still buffers is flushed
    before the socket goes (asyncio's contract for `close()`; `abort()` would drop it), whatever the peer has done to
    ITS sending side - the tail of a download is delivered to a client that half-closed and reads slowly -/
theorem generated_stream_close : streamCloseBody = ["self.writer.close()"] := by decide

open Generated.Transfer in
/-- the iterator stops on a falsy (empty) read only, and both `iter_by_block` read exactly `count` -/
theorem generated_iterator :
    iteratorNext = ["data = await self.read_coro()", "if data:", "    return data", "else:", "    raise StopAsyncIteration"]
    ∧ streamIterByBlock = "AsyncStreamIterator(lambda: self.read(count))"
    ∧ fileIterByBlock = "AsyncStreamIterator(lambda: self.read(count))" := by decide

end C01
