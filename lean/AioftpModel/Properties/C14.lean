/-
  C14  ABOR at any moment stops the transfer, is answered, and keeps the session usable.

  Full statement: for every transfer verb and every position of its worker, ABOR is answered 426+226 when a
  worker was interrupted, a single 226 otherwise, and the session stays alive.  The theorems are decisions over
  the REGENERATED decorator order of the five nested workers (`Generated.Verb.workerGuards`) and the regenerated
  shape of `Server.abor` (`Generated.aborCountsFinished`).

  History: on the pinned tree the statement was FALSE at two positions — "worker waiting for the data
  connection" (finding F3: the decorators were `[ConnectionConditions(wait=True), worker]`, the cancellation
  landed outside `worker`) and "worker finished, not yet reaped" (finding F13).  Both are repaired in /repo
  (272a27e, 1209e30); `old_order_drops_session` and `old_abor_unanswered` keep the negative witnesses as
  statements about the OLD shapes, so a return to them is named by the model.
-/
import AioftpModel.Properties.C05
import AioftpModel.Model.Abort
import AioftpModel.Lemmas.Framing

namespace C14
open Model Model.Abort Generated

/-- the decorator order of all five nested workers, as found in the source now: `worker` outermost -/
theorem worker_stacks : ∀ v ∈ transferVerbs, v.workerGuards = [.worker, .conn [.dataConnection] true 425] := by
  decide

/-- only the five transfer verbs have a worker at all -/
theorem only_transfers_have_workers : ∀ v ∈ Verb.all, v ∉ transferVerbs → v.workerGuards = [] := by decide

/-- what the property asks of ABOR at a position: 426 then 226 when a worker was interrupted, one 226 otherwise -/
def wanted : Pos → Outcome
  | .none => ⟨[226], true⟩
  | .finishedUnreaped => ⟨[226], true⟩
  | .waitData => ⟨[426, 226], true⟩
  | .inBody => ⟨[426, 226], true⟩

/-- **abor_answered** (full strength): for every transfer verb and EVERY position of its worker the answer
    is the wanted one and the session stays alive. -/
theorem abor_answered : ∀ v ∈ transferVerbs, ∀ pos : Pos, abor v.workerGuards pos = wanted pos := by
  intro v hv pos
  have h := worker_stacks v hv
  rw [h]
  cases pos <;> decide

/-- the session survives ABOR at every position, for every transfer verb -/
theorem abor_keeps_session (v : Verb) (hv : v ∈ transferVerbs) (pos : Pos) :
    (abor v.workerGuards pos).alive = true := by
  rw [abor_answered v hv pos]; cases pos <;> rfl

/-- ABOR is never left unanswered -/
theorem abor_replies_nonempty (v : Verb) (hv : v ∈ transferVerbs) (pos : Pos) :
    (abor v.workerGuards pos).replies ≠ [] := by
  rw [abor_answered v hv pos]; cases pos <;> simp [wanted]

/-- **old_order_drops_session** (what F3 was): with the wait wrapper outside `worker`, ABOR while the worker
    waits for the data connection is answered by nothing and the session is dropped. -/
theorem old_order_drops_session (c : Bool) :
    aborWith c [.conn [.dataConnection] true 425, .worker] .waitData = ⟨[], false⟩ := by
  cases c <;> decide

/-- **old_abor_unanswered** (what F13 was): an ABOR that counts finished tasks is not answered at all when the
    worker has finished but is not yet reaped. -/
theorem old_abor_unanswered (guards : List Guard) : aborWith true guards .finishedUnreaped = ⟨[], true⟩ := rfl

/-- the repair is exactly the decorator order: with `worker` outermost every position is answered -/
theorem abor_answered_if_worker_outermost (c : Bool) (pos : Pos) (rest : List Guard) (h : pos ≠ .finishedUnreaped) :
    (aborWith c (.worker :: rest) pos).alive = true ∧
    ((aborWith c (.worker :: rest) pos).replies = [426, 226] ∨ (aborWith c (.worker :: rest) pos).replies = [226]) := by
  cases pos <;> simp [aborWith, caught, isWaitGuard] at h ⊢

/-- general form: ABOR is survived iff no worker is running or the cancellation is caught -/
theorem abor_alive_iff (c : Bool) (guards : List Guard) (pos : Pos) :
    (aborWith c guards pos).alive = true ↔ (pos = .none ∨ pos = .finishedUnreaped ∨ caught guards pos = true) := by
  cases pos <;> simp [aborWith] <;> split <;> simp_all

/-- non-vacuity: the positions are distinguishable on the real table -/
example : abor Verb.retr.workerGuards .inBody ≠ abor Verb.retr.workerGuards .none := by decide

/-! ### ABOR never overtakes the transfer command before it (F14, repaired in /repo 6553f05) -/

/-- An ABOR sent right after a transfer command used to be handled while that command was still in its guards
    (every line was its own task): answered "226 nothing to abort", and the transfer then ran.  As the source is now
    the ABOR's handler starts only when the transfer command's handler has returned - i.e. when its worker exists -
    for every schedule (`C05.pipelined_commands_handled_in_order`); `abor_answered` then applies to the worker
    position it finds. -/
theorem abor_waits_for_the_command_before_it (evs : List Model.Dispatch.Ev) :
    (Model.Dispatch.runNow evs).running.length ≤ 1 ∧
    (Model.Dispatch.runNow evs).started ++ (Model.Dispatch.runNow evs).backlog = (Model.Dispatch.runNow evs).received :=
  ⟨(C05.pipelined_commands_handled_in_order evs).1, (C05.pipelined_commands_handled_in_order evs).2.1⟩

/-! ### ABOR with nothing to abort is only an answer -/

/-- **fact_abor_touches_only_workers**: as regenerated from `server.py`, `Server.abor` reads and writes nothing of
    the session but `extra_workers` and `response` -/
theorem fact_abor_touches_only_workers : Generated.aborTouchesOnlyWorkers = true := by decide

open Model.Session in
/-- **idle_abor_is_only_an_answer**: in the sequential model (no worker runs between two commands) ABOR is answered
    226 and leaves the tree and EVERY field of the session as they were - in particular a data connection the
    client has made and not used yet, the passive listener, the working directory, the login and a pending rename;
    the transfer that follows finds them -/
theorem idle_abor_is_only_an_answer (cfg : Cfg) (w : World) (s : SState) (rest : Py.Str) (arg : PPath) (payload : Bytes) :
    body cfg w s .abor rest arg payload = (w, s, { replies := [226] }) := by
  simp [body]

open Model.Session in
example : (body ⟨[], none, false⟩ ⟨[], none, []⟩ { user := some 0, logged := true, passive := true, dataConn := true } .abor [] ⟨1, []⟩ []).2.1.dataConn = true := by
  simp [body]

/-! ### several transfers under way, one ABOR -/

/-- **abor_stops_every_transfer.**  With any number of workers in the session, at any positions: every unfinished one
    is interrupted and answers 426 then 226 (so the replies are that pair once per unfinished worker, in order), the
    session stays alive; with no unfinished worker the answer is the single 226. -/
theorem abor_stops_every_transfer (v : Verb) (hv : v ∈ transferVerbs) (ps : List Pos) :
    (aborMany v.workerGuards ps).alive = true ∧
    (aborMany v.workerGuards ps).replies =
      (if (ps.filter Pos.live).isEmpty then [226] else (ps.filter Pos.live).flatMap (fun _ => [426, 226])) := by
  have hg := worker_stacks v hv
  have hlive : ∀ p : Pos, p.live = true → abor v.workerGuards p = ⟨[426, 226], true⟩ := by
    intro p hp
    have := abor_answered v hv p
    cases p <;> simp [Pos.live] at hp <;> simpa [wanted] using this
  unfold aborMany
  by_cases he : (ps.filter Pos.live).isEmpty = true
  · have hc : aborCountsFinished = false := by decide
    simp [he, hc]
  · simp only [he, if_false, Bool.false_eq_true]
    constructor
    · rw [List.all_eq_true]
      intro p hp
      rw [hlive p (List.mem_filter.mp hp).2]
    · have hcongr : ∀ (l : List Pos), (∀ p ∈ l, p.live = true) →
          l.flatMap (fun p => (abor v.workerGuards p).replies) = l.flatMap (fun _ => [426, 226]) := by
        intro l
        induction l with
        | nil => intro _; rfl
        | cons a t ih =>
          intro h
          simp only [List.flatMap_cons]
          rw [hlive a (h a (by simp)), ih (fun b hb => h b (List.mem_cons_of_mem _ hb))]
      exact hcongr _ (fun p hp => (List.mem_filter.mp hp).2)

/-- two downloads under way: both stopped, two pairs of replies -/
example : (aborMany Verb.retr.workerGuards [.inBody, .none, .waitData]).replies = [426, 226, 426, 226] := by decide

/-! ### the client's half: `Client.abort()` against any spelling of the two replies -/

/-- **client_abort_reads_exactly_its_replies.**  `Client.abort()` is `command("ABOR", "226", "426")`: replies that match
    `426` are waited through, the `226` decides.  Whatever way the peer spells the two replies - one line each, or
    multi-line with body lines that repeat the code, are indented, or are plain text (`ContLine`), any number of them -
    the call consumes exactly those two replies: it returns the 226 and the stream stands at whatever the peer sends
    next (`R`), so the command that follows reads ITS reply. -/
theorem client_abort_reads_exactly_its_replies (enc : Py.Encoding) (a b ta tb : Py.Str) (midA midB : List (Py.Str × Py.Str))
    (hA : ∀ p ∈ midA, ContLine "426".toList p.1 p.2) (hB : ∀ p ∈ midB, ContLine "226".toList p.1 p.2)
    (heA : ∀ x ∈ ("426".toList ++ '-' :: a) :: midA.map (·.1) ++ ["426".toList ++ ' ' :: ta],
      (Py.encode enc (x ++ eol)).isSome = true)
    (heB : ∀ x ∈ ("226".toList ++ '-' :: b) :: midB.map (·.1) ++ ["226".toList ++ ' ' :: tb],
      (Py.encode enc (x ++ eol)).isSome = true) (R : List Py.Bytes) :
    commandLoop enc ["426".toList]
        ((("426".toList ++ '-' :: a) :: midA.map (·.1) ++ ["426".toList ++ ' ' :: ta]).map (encLine enc) ++
          ((("226".toList ++ '-' :: b) :: midB.map (·.1) ++ ["226".toList ++ ' ' :: tb]).map (encLine enc) ++ R)) =
      (.ok ("226".toList, ('-' :: Py.rstrip b) :: midB.map (·.2) ++ [lastInfo tb]), R) := by
  have d426 : Digits3 "426".toList := ⟨rfl, by decide⟩
  have d226 : Digits3 "226".toList := ⟨rfl, by decide⟩
  rw [commandLoop_ok (parse_foreign_multi d426 a midA ta hA heA _)]
  rw [if_pos (by decide)]
  rw [commandLoop_ok (parse_foreign_multi d226 b midB tb hB heB _)]
  rw [if_neg (by decide)]

/-- the same when the interrupted transfer's 426 is one line and so is the 226 (what aioftp's own server sends) -/
theorem client_abort_reads_exactly_its_replies_single (enc : Py.Encoding) (ta tb : Py.Str)
    (heA : (Py.encode enc (("426".toList ++ ' ' :: ta) ++ eol)).isSome = true)
    (heB : (Py.encode enc (("226".toList ++ ' ' :: tb) ++ eol)).isSome = true) (R : List Py.Bytes) :
    commandLoop enc ["426".toList]
        (encLine enc ("426".toList ++ ' ' :: ta) :: encLine enc ("226".toList ++ ' ' :: tb) :: R) =
      (.ok ("226".toList, [lastInfo tb]), R) := by
  have d426 : Digits3 "426".toList := ⟨rfl, by decide⟩
  have d226 : Digits3 "226".toList := ⟨rfl, by decide⟩
  rw [commandLoop_ok (parse_written_single d426 ta heA _)]
  rw [if_pos (by decide)]
  rw [commandLoop_ok (parse_written_single d226 tb heB _)]
  rw [if_neg (by decide)]

end C14
