/-
  C14  ABOR at any moment stops the transfer, is answered, and keeps the session usable.

  Full statement: for every transfer verb and every position of its worker, ABOR is answered 426+226 when a
  worker was interrupted, a single 226 otherwise, and the session stays alive.  On the pinned tree this is
  FALSE at the position "worker waiting for the data connection" (finding F3): the decorators of the nested
  workers are `[ConnectionConditions(wait=True), worker]`, so the cancellation lands outside `worker`.
  The theorems below are decisions over the REGENERATED decorator order.
-/
import AioftpModel.Model.Abort

namespace C14
open Model Model.Abort Generated

/-- the decorator order of all five nested workers, as found in the source now -/
theorem worker_stacks : ∀ v ∈ transferVerbs, v.workerGuards = [.conn [.dataConnection] true 425, .worker] := by
  decide

/-- only the five transfer verbs have a worker at all -/
theorem only_transfers_have_workers : ∀ v ∈ Verb.all, v ∉ transferVerbs → v.workerGuards = [] := by decide

/-- **abor_answered_partial**: at every position except `waitData`, for every transfer verb:
    interrupted → 426 then 226; nothing to interrupt → a single 226; the session stays alive. -/
theorem abor_answered_partial : ∀ v ∈ transferVerbs,
    abor v.workerGuards .inBody = ⟨[426, 226], true⟩ ∧ abor v.workerGuards .none = ⟨[226], true⟩ := by
  decide

/-- **negative witness (finding F3)**: ABOR while the worker waits for the data connection is answered by
    nothing and the session is dropped — for every transfer verb. -/
theorem abor_while_waiting_drops_session : ∀ v ∈ transferVerbs,
    abor v.workerGuards .waitData = ⟨[], false⟩ := by
  decide

/-- **negative witness (finding F13)**: ABOR handled after the worker finished but before the dispatcher
    reaped it is not answered at all (the session survives, the client waits for a 226 that never comes). -/
theorem abor_unanswered_when_worker_unreaped : ∀ v ∈ transferVerbs,
    abor v.workerGuards .finishedUnreaped = ⟨[], true⟩ := by
  decide

/-- the defect is exactly the decorator order: with `worker` outermost every position is answered -/
theorem abor_answered_if_worker_outermost (pos : Pos) (rest : List Guard) (h : pos ≠ .finishedUnreaped) :
    (abor (.worker :: rest) pos).alive = true ∧
    ((abor (.worker :: rest) pos).replies = [426, 226] ∨ (abor (.worker :: rest) pos).replies = [226]) := by
  cases pos <;> simp [abor, caught, isWaitGuard] at h ⊢

/-- general form: ABOR is answered and survived iff no worker is running or the cancellation is caught -/
theorem abor_alive_iff (guards : List Guard) (pos : Pos) :
    (abor guards pos).alive = true ↔ (pos = .none ∨ pos = .finishedUnreaped ∨ caught guards pos = true) := by
  cases pos <;> simp [abor] <;> split <;> simp_all

/-- non-vacuity: the positions are distinguishable on the real table -/
example : abor Verb.retr.workerGuards .inBody ≠ abor Verb.retr.workerGuards .waitData := by decide

end C14
