/-
  C02  Every client-supplied path stays inside the user's base directory.

  Statements only (proofs go through Lemmas/Paths.lean).  Quantified over *every* argument string,
  every base path and every working directory whose parts are names `_parse_path` can produce.
-/
import AioftpModel.Generated.Server
import AioftpModel.Lemmas.Paths

namespace C02
open Model Py

/-- a working directory the server can hold: absolute, made of real names -/
def AbsNormal (p : PPath) : Prop := p.root = 1 ∧ ∀ x ∈ p.parts, GoodName x

/-- what any stored cwd satisfies at least (used where `..`-freeness is not needed) -/
def CwdOK (p : PPath) : Prop := ∀ x ∈ p.parts, PartOK x

theorem AbsNormal.cwdOK {p : PPath} (h : AbsNormal p) : CwdOK p := fun x hx => (h.2 x hx).partOK

/-- shape of `get_paths` for a PurePosixPath argument whose parts are parse-able names -/
theorem getPathsP_shape (base cwd arg : PPath) (hc : CwdOK cwd) (ha : ∀ x ∈ arg.parts, PartOK x) :
    ∃ r : List Str, (∀ x ∈ r, GoodName x) ∧
      getPathsP base cwd arg = (⟨base.root, base.parts ++ r⟩, ⟨1, r⟩) :=
  ⟨resolvedTail cwd arg, resolveParts_good _ (underCwd_parts_ok cwd arg hc ha),
    getPathsP_eq base cwd arg hc ha⟩

/-- **virtual_normal + real_inside_base.**  For every argument string: the virtual path is absolute
    with root `/`, consists only of real names (no `''`, `.`, `..`, no slash inside a name), and the
    real path is the base path followed by exactly those names — lexically inside the base. -/
theorem real_inside_base (base cwd : PPath) (arg : Str) (hc : CwdOK cwd) :
    ∃ r : List Str, (∀ x ∈ r, GoodName x) ∧
      getPaths base cwd arg = (⟨base.root, base.parts ++ r⟩, ⟨1, r⟩) :=
  getPathsP_shape base cwd (PPath.parse arg) hc (parse_parts_ok arg)

/-- the same for the path-typed call made by CDUP (`current_directory.parent`) -/
theorem real_inside_base_cdup (base cwd : PPath) (hc : CwdOK cwd) :
    ∃ r : List Str, (∀ x ∈ r, GoodName x) ∧
      getPathsP base cwd cwd.parent = (⟨base.root, base.parts ++ r⟩, ⟨1, r⟩) :=
  getPathsP_shape base cwd cwd.parent hc
    (fun x hx => hc x (List.dropLast_subset _ hx))

/-- corollary in the property's words: the real path is relative to base, contains no `..` below it -/
theorem real_is_relative_to_base (base cwd : PPath) (arg : Str) (hc : CwdOK cwd) :
    (getPaths base cwd arg).1.isRelativeTo base = true ∧
    ∀ x ∈ (getPaths base cwd arg).1.parts.drop base.parts.length, GoodName x := by
  obtain ⟨r, hr, he⟩ := real_inside_base base cwd arg hc
  rw [he]
  constructor
  · simp [PPath.isRelativeTo, isPrefixOf_append_self]
  · simpa using hr

/-- the cwd invariant is preserved by whatever `get_paths` returns (CWD stores `.2`) -/
theorem virtual_absnormal (base cwd : PPath) (arg : Str) (hc : CwdOK cwd) :
    AbsNormal (getPaths base cwd arg).2 := by
  obtain ⟨r, hr, he⟩ := real_inside_base base cwd arg hc
  rw [he]; exact ⟨rfl, hr⟩

theorem virtual_absnormal_cdup (base cwd : PPath) (hc : CwdOK cwd) :
    AbsNormal (getPathsP base cwd cwd.parent).2 := by
  obtain ⟨r, hr, he⟩ := real_inside_base_cdup base cwd hc
  rw [he]; exact ⟨rfl, hr⟩

/-- **resolves_to_walk.**  The virtual path is the independent left-to-right reading of the string:
    start at `/` for an absolute argument, else at cwd; `''`/`.` stay, `..` goes up and stops at the
    root, a name goes down. -/
theorem resolves_to_walk (base cwd : PPath) (arg : Str) (hc : AbsNormal cwd) :
    (getPaths base cwd arg).2 = ⟨1, walk cwd.parts arg⟩ := by
  unfold getPaths
  rw [getPathsP_eq base cwd _ hc.cwdOK (parse_parts_ok arg)]
  simp only
  rw [resolvedTail_eq_walk cwd arg hc.1 (fun p hp => (hc.2 p hp).2.2.1)]

/-- **alias_invariant.**  Two spellings (from possibly different working directories) that walk to the
    same location resolve to the same virtual *and* real path — which is what C04 needs. -/
theorem alias_invariant (base cwd₁ cwd₂ : PPath) (s₁ s₂ : Str) (h₁ : AbsNormal cwd₁) (h₂ : AbsNormal cwd₂)
    (hw : walk cwd₁.parts s₁ = walk cwd₂.parts s₂) :
    getPaths base cwd₁ s₁ = getPaths base cwd₂ s₂ := by
  obtain ⟨r₁, _, e₁⟩ := real_inside_base base cwd₁ s₁ h₁.cwdOK
  obtain ⟨r₂, _, e₂⟩ := real_inside_base base cwd₂ s₂ h₂.cwdOK
  have w₁ := resolves_to_walk base cwd₁ s₁ h₁
  have w₂ := resolves_to_walk base cwd₂ s₂ h₂
  rw [e₁] at w₁; rw [e₂] at w₂
  simp only [PPath.mk.injEq, true_and] at w₁ w₂
  rw [e₁, e₂, w₁, w₂, hw]

/-- going up stops at the virtual root: any number of `..` from anywhere lands on `/` at worst -/
theorem walk_dotdot_stops_at_root (n : Nat) :
    (List.replicate n dotdot).foldl walkSeg [] = [] := by
  induction n with
  | zero => rfl
  | succ k ih =>
    rw [List.replicate_succ, List.foldl_cons]
    have : walkSeg [] dotdot = [] := by decide
    rw [this, ih]

/-! ### the path the permission lookup is made for -/

/-- **fact_permission_lookup_on_virtual_path**: as regenerated from `server.py`, `PathPermissions` takes the virtual
    path from `get_paths(connection, rest)` - the call every handler makes for the location it acts on - and looks the
    permission up for exactly that value -/
theorem fact_permission_lookup_on_virtual_path : Generated.permissionLookupOnVirtualPath = true := by decide

/-- **permission_lookup_path_is_the_location**: for EVERY base directory, working directory and argument, the path the
    permission lookup is made for (the virtual half of `getPaths`) is absolute and normal, and it is the walk of the
    argument from the working directory (the location the real half addresses below the base directory:
    `real_is_relative_to_base`) -/
theorem permission_lookup_path_is_the_location (base cwd : PPath) (arg : Str) (hc : AbsNormal cwd) :
    AbsNormal (getPaths base cwd arg).2 ∧ (getPaths base cwd arg).2 = ⟨1, walk cwd.parts arg⟩ :=
  ⟨virtual_absnormal base cwd arg hc.cwdOK, resolves_to_walk base cwd arg hc⟩

/-! ### non-vacuity: concrete instances of every hypothesis and a non-trivial evaluation -/

example : AbsNormal ⟨1, ["a".toList, "b".toList]⟩ := by
  refine ⟨rfl, ?_⟩
  intro x hx
  simp at hx
  rcases hx with rfl | rfl <;> refine ⟨by decide, by decide, by decide, by decide⟩

/-- cwd `/a/b`, argument `../../../x/./y//z/..` resolves to `/x/y` under base `srv/ftp` -/
example : getPaths ⟨0, ["srv".toList, "ftp".toList]⟩ ⟨1, ["a".toList, "b".toList]⟩
      "../../../x/./y//z/..".toList
    = (⟨0, ["srv".toList, "ftp".toList, "x".toList, "y".toList]⟩, ⟨1, ["x".toList, "y".toList]⟩) := by
  decide

example : walk ["a".toList, "b".toList] "../../../x/./y//z/..".toList = ["x".toList, "y".toList] := by
  decide

/-- `//x/../..` : the double-slash root is re-rooted under `/` as well -/
example : (getPaths ⟨1, ["b".toList]⟩ ⟨1, []⟩ "//x/../../y".toList).1 = ⟨1, ["b".toList, "y".toList]⟩ := by
  decide

end C02
