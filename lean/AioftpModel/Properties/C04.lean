/-
  C04  Read/write permissions follow the nearest-ancestor rule on the resolved path.

  Function level (lookup, decorator loop, which flag each verb asks for, alias invariance).
  NOT here: the wire-level statements `refused_iff` over the whole guard stack and
  `refused_changes_nothing` (state and file tree unchanged by a refused request) — they need the
  sequential session model (`Model/Session.lean`), which is built separately.
-/
import AioftpModel.Lemmas.Perms
import AioftpModel.Properties.C02

namespace C04
open Model Py Generated

/-- `e` is an ancestor-or-self entry of `p` (what `Permission.is_parent` computes): same anchor and
    the entry's names are a prefix of the path's names -/
theorem ancestor_iff (e : Permission) (p : PPath) :
    e.isParent p = true ↔ p.root = e.path.root ∧ e.path.parts <+: p.parts :=
  isParent_iff e p

/-- **nearest.**  `User.get_permissions` never raises, and for every table and every path
    * either no entry is an ancestor of the path and the result is `Permission()`,
    * or the result is an entry of the table that is an ancestor of the path, every ancestor entry
      listed *before* it is strictly shallower and every ancestor entry listed *after* it is at most
      as deep: the deepest (= nearest) ancestor, and the FIRST such entry in table order. -/
theorem nearest (perms : List Permission) (p : PPath) :
    ((∀ x ∈ perms, x.isParent p = false) ∧ getPermissions? perms p = some Permission.default) ∨
    ∃ pre e post, perms = pre ++ e :: post ∧ getPermissions? perms p = some e ∧
      e.isParent p = true ∧
      (∀ x ∈ pre, x.isParent p = true → x.depth < e.depth) ∧
      (∀ x ∈ post, x.isParent p = true → x.depth ≤ e.depth) := by
  unfold getPermissions?
  rcases pyMin_spec (relKey p) Permission.default _ (relKey_defined_on_filter perms p) with
    ⟨hnil, hd⟩ | ⟨r, hr, pre', post', k, hl, hk, hpre, hpost⟩
  · left
    refine ⟨?_, hd⟩
    intro x hx
    have := List.filter_eq_nil_iff.1 hnil x hx
    simpa using this
  · right
    obtain ⟨l₁, l₂, hperms, hf₁, hf₂⟩ := List.filter_eq_append_iff.1 hl
    obtain ⟨m₁, m₂, hl₂, hm₁, hpr, hm₂⟩ := List.filter_eq_cons_iff.1 hf₂
    obtain ⟨hkr, hdr⟩ := relKey_of_isParent r p hpr
    have hkk : k = p.parts.length - r.depth := by
      rw [hk] at hkr; exact Option.some.inj hkr
    refine ⟨l₁ ++ m₁, r, m₂, by simp [hperms, hl₂], hr, hpr, ?_, ?_⟩
    · intro x hx hxp
      rcases List.mem_append.1 hx with h | h
      · have hxf : x ∈ pre' := by rw [← hf₁]; exact List.mem_filter.2 ⟨h, hxp⟩
        obtain ⟨kx, hkx, hlt⟩ := hpre x hxf
        obtain ⟨hkx', hdx⟩ := relKey_of_isParent x p hxp
        rw [hkx] at hkx'
        have := Option.some.inj hkx'
        omega
      · exact absurd hxp (hm₁ x h)
    · intro x hx hxp
      have hxf : x ∈ post' := by rw [← hm₂]; exact List.mem_filter.2 ⟨hx, hxp⟩
      obtain ⟨kx, hkx, hle⟩ := hpost x hxf
      obtain ⟨hkx', hdx⟩ := relKey_of_isParent x p hxp
      rw [hkx] at hkx'
      have := Option.some.inj hkx'
      omega

/-- the lookup is total: the ValueError of the key function cannot escape -/
theorem get_permissions_total (perms : List Permission) (p : PPath) :
    ∃ e, getPermissions? perms p = some e := by
  rcases nearest perms p with ⟨_, h⟩ | ⟨_, e, _, _, h, _⟩
  · exact ⟨_, h⟩
  · exact ⟨e, h⟩

/-- with no ancestor entry the result is the allow-all default; with one, it is a listed entry -/
theorem default_iff_no_ancestor (perms : List Permission) (p : PPath) :
    ((∀ x ∈ perms, x.isParent p = false) → getPermissions? perms p = some Permission.default) ∧
    ((∃ x ∈ perms, x.isParent p = true) →
      ∃ e ∈ perms, getPermissions? perms p = some e ∧ e.isParent p = true) := by
  constructor
  · intro hno
    rcases nearest perms p with ⟨_, h⟩ | ⟨pre, e, post, hp, _, hpar, _⟩
    · exact h
    · have := hno e (by simp [hp]); rw [this] at hpar; exact absurd hpar (by simp)
  · rintro ⟨x, hx, hxp⟩
    rcases nearest perms p with ⟨hno, _⟩ | ⟨pre, e, post, hp, h, hpar, _⟩
    · rw [hno x hx] at hxp; exact absurd hxp (by simp)
    · exact ⟨e, by simp [hp], h, hpar⟩

/-- every path below the virtual root is covered as soon as the table has an entry for `/` -/
theorem root_entry_covers (e : Permission) (p : PPath) (he : e.path = ⟨1, []⟩) (hp : p.root = 1) :
    e.isParent p = true := by
  rw [isParent_iff, he]; exact ⟨hp, List.nil_prefix⟩

/-! ### the decorator loop -/

/-- **permGuard_spec.**  The loop of `PathPermissions` as written: it refuses iff the list of
    permissions is non-empty and the FIRST listed flag of the looked-up entry is false; it calls the
    handler iff that first flag is true; with an empty permission list it does neither (the wrapper
    returns `None`: no reply, handler not run). -/
theorem permGuard_spec (e : Permission) (ps : List Perm) :
    (permLoop e ps = .refused ↔ ∃ q t, ps = q :: t ∧ e.flag q = false) ∧
    (permLoop e ps = .called ↔ ∃ q t, ps = q :: t ∧ e.flag q = true) ∧
    (permLoop e ps = .fellThrough ↔ ps = []) := by
  cases ps with
  | nil => simp [permLoop]
  | cons q t =>
    cases h : e.flag q <;> simp [permLoop, h]

/-- permissions after the first are never looked at -/
theorem permLoop_ignores_tail (e : Permission) (q : Perm) (t : List Perm) :
    permLoop e (q :: t) = permLoop e [q] := rfl

/-- the docstring's `@PathPermissions(readable, writable)` does NOT check `writable`
    (latent: no handler of the pinned tree lists two permissions, see `perm_table`) -/
theorem second_permission_never_checked :
    permLoop ⟨⟨1, []⟩, true, false⟩ [.readable, .writable] = .called := by decide

/-! ### which verbs are guarded, and by which flag (generated table, re-decided on every run) -/

def readVerbs : List Verb := [.cdup, .cwd, .list, .mlsd, .mlst, .retr]
def writeVerbs : List Verb := [.appe, .dele, .mkd, .rmd, .rnfr, .rnto, .stor]

theorem verb_all_complete (v : Verb) : v ∈ Verb.all := by cases v <;> decide

/-- **perm_table.**  For every verb of `commands_mapping`: its stack (delegation unfolded) asks for
    exactly `readable` iff it is one of CDUP/CWD/LIST/MLSD/MLST/RETR, for exactly `writable` iff it is
    one of APPE/DELE/MKD/RMD/RNFR/RNTO/STOR, has no permission guard iff it is neither, never has two
    permission guards, the permission guard is the innermost guard of the stack, and the nested
    workers carry none. -/
theorem perm_table (v : Verb) :
    (permOf v.guards = some [.readable] ↔ v ∈ readVerbs) ∧
    (permOf v.guards = some [.writable] ↔ v ∈ writeVerbs) ∧
    (permOf v.guards = none ↔ (v ∉ readVerbs ∧ v ∉ writeVerbs)) ∧
    permCount v.guards ≤ 1 ∧
    (permCount v.guards = 1 → v.guards.getLast?.map isPermGuard = some true) ∧
    permCount v.workerGuards = 0 := by
  cases v <;> decide

/-- every live permission guard lists exactly one permission, so for the pinned table the loop's
    "first flag only" behaviour coincides with "the flag the verb asks for" -/
theorem live_guards_single (v : Verb) (ps : List Perm) (h : permOf v.guards = some ps) :
    ∃ q, ps = [q] := by
  cases v <;> simp [Verb.guards, permOf] at h <;> exact ⟨_, h.symm⟩

/-- **refused_iff (function level).**  For a permission-checked verb, the guard (with the permission
    list `ps` the live stack carries) refuses the request `arg` from working directory `cwd` iff the
    nearest-ancestor entry of the *resolved* path has the one flag `q` the verb asks for switched
    off; otherwise it calls the handler; it never raises and never falls through. -/
theorem refused_iff_flag (v : Verb) (ps : List Perm) (hv : permOf v.guards = some ps)
    (perms : List Permission) (base cwd : PPath) (arg : Str) :
    ∃ e q, ps = [q] ∧ getPermissions? perms (getPaths base cwd arg).2 = some e ∧
      permGuard? ps perms base cwd arg = some (if e.flag q then .called else .refused) := by
  obtain ⟨q, hq⟩ := live_guards_single v ps hv
  obtain ⟨e, he⟩ := get_permissions_total perms (getPaths base cwd arg).2
  refine ⟨e, q, hq, he, ?_⟩
  unfold permGuard?
  rw [he, hq]
  cases h : e.flag q <;> simp [permLoop, h]

/-- the same for CDUP's path-typed call `cwd(connection, current_directory.parent)` -/
theorem refused_iff_flag_cdup (perms : List Permission) (base cwd : PPath) :
    ∃ e, getPermissions? perms (getPathsP base cwd cwd.parent).2 = some e ∧
      permGuardP? [.readable] perms base cwd cwd.parent =
        some (if e.readable then .called else .refused) := by
  obtain ⟨e, he⟩ := get_permissions_total perms (getPathsP base cwd cwd.parent).2
  refine ⟨e, he, ?_⟩
  unfold permGuardP?
  rw [he]
  cases h : e.readable <;> simp [permLoop, Permission.flag, h]

/-! ### spelling does not matter -/

/-- the entry is looked up at the location the argument *walks* to (independent reading of the
    string: `''`/`.` stay, `..` goes up and stops at the root, a name goes down) -/
theorem entry_by_location (perms : List Permission) (base cwd : PPath) (s : Str)
    (hc : C02.AbsNormal cwd) :
    getPermissions? perms (getPaths base cwd s).2 = getPermissions? perms ⟨1, walk cwd.parts s⟩ := by
  rw [C02.resolves_to_walk base cwd s hc]

/-- **alias_same_entry.**  Two spellings, from possibly different working directories, that walk to
    the same location get the same entry, hence the same verdict from every permission guard. -/
theorem alias_same_entry (perms : List Permission) (base cwd₁ cwd₂ : PPath) (s₁ s₂ : Str)
    (h₁ : C02.AbsNormal cwd₁) (h₂ : C02.AbsNormal cwd₂)
    (hw : walk cwd₁.parts s₁ = walk cwd₂.parts s₂) :
    getPermissions? perms (getPaths base cwd₁ s₁).2 = getPermissions? perms (getPaths base cwd₂ s₂).2 ∧
    ∀ ps, permGuard? ps perms base cwd₁ s₁ = permGuard? ps perms base cwd₂ s₂ := by
  have := C02.alias_invariant base cwd₁ cwd₂ s₁ s₂ h₁ h₂ hw
  refine ⟨by rw [this], fun ps => ?_⟩
  unfold permGuard?
  rw [this]

/-- the base directory plays no role in the verdict -/
theorem base_irrelevant (perms : List Permission) (b₁ b₂ cwd : PPath) (s : Str)
    (hc : C02.AbsNormal cwd) (ps : List Perm) :
    permGuard? ps perms b₁ cwd s = permGuard? ps perms b₂ cwd s := by
  unfold permGuard?
  rw [C02.resolves_to_walk b₁ cwd s hc, C02.resolves_to_walk b₂ cwd s hc]

/-! ### non-vacuity: the tutorial's Guido / anon tables (docs/server_tutorial.rst) -/

def guido : List Permission :=
  [⟨⟨1, []⟩, false, false⟩, ⟨⟨1, ["Guido".toList]⟩, true, true⟩]

/-- `aioftp.Permission("/anon", readable=True)` : `writable` keeps its default `True` -/
def anon : List Permission :=
  [⟨⟨1, []⟩, false, false⟩, ⟨⟨1, ["anon".toList]⟩, true, true⟩]

example : getPermissions? guido ⟨1, ["Guido".toList, "x".toList]⟩ = some ⟨⟨1, ["Guido".toList]⟩, true, true⟩ := by
  decide

example : getPermissions? guido ⟨1, ["etc".toList]⟩ = some ⟨⟨1, []⟩, false, false⟩ := by decide

/-- `/Guido/../etc/passwd` from cwd `/Guido` is judged as `/etc/passwd`: refused for RETR -/
example : permGuard? [.readable] guido ⟨0, []⟩ ⟨1, ["Guido".toList]⟩ "../etc/passwd".toList = some .refused := by
  decide

/-- and `/etc/../Guido/f` is judged as `/Guido/f`: STOR allowed -/
example : permGuard? [.writable] guido ⟨0, []⟩ ⟨1, []⟩ "/etc/../Guido//./f".toList = some .called := by
  decide

/-- the documentation says anon "has only read permission"; the table it shows lets anon write
    below /anon (a defect of the tutorial text, not of the code) -/
example : permGuard? [.writable] anon ⟨0, []⟩ ⟨1, ["anon".toList]⟩ "new".toList = some .called := by decide

/-- `/Guidoo` is not below `/Guido` (name-wise prefix, not string prefix) -/
example : (⟨⟨1, ["Guido".toList]⟩, true, true⟩ : Permission).isParent ⟨1, ["Guidoo".toList]⟩ = false := by
  decide

/-- a nested, duplicated, shuffled table: deepest ancestor wins, first of equal depth wins -/
example : getPermissions?
    [⟨⟨1, ["a".toList]⟩, true, false⟩, ⟨⟨1, ["a".toList, "b".toList]⟩, false, true⟩,
     ⟨⟨1, []⟩, false, false⟩, ⟨⟨1, ["a".toList, "b".toList]⟩, true, true⟩,
     ⟨⟨2, ["a".toList, "b".toList, "c".toList]⟩, true, true⟩, ⟨⟨0, ["a".toList]⟩, true, true⟩]
    ⟨1, ["a".toList, "b".toList, "c".toList]⟩ = some ⟨⟨1, ["a".toList, "b".toList]⟩, false, true⟩ := by
  decide

/-- no ancestor at all (only a relative, a `//`-rooted and a `..` entry): allow-all default -/
example : getPermissions?
    [⟨⟨0, ["a".toList]⟩, false, false⟩, ⟨⟨2, []⟩, false, false⟩, ⟨⟨1, ["a".toList, dotdot]⟩, false, false⟩]
    ⟨1, ["a".toList]⟩ = some Permission.default := by
  decide

example : C02.AbsNormal ⟨1, ["Guido".toList]⟩ := by
  refine ⟨rfl, ?_⟩
  intro x hx
  simp at hx
  subst hx
  refine ⟨by decide, by decide, by decide, by decide⟩

example : walk ["Guido".toList] "../etc/passwd".toList = walk [] "/etc/./passwd".toList := by decide

example : permOf Verb.retr.guards = some [.readable] ∧ permOf Verb.appe.guards = some [.writable] := by decide

/-- **fact_get_permissions_as_modelled**: as regenerated from `server.py`, `User.get_permissions` is filter(is_parent) over
    `self.permissions` AS IT IS AT THE CALL, then `min` by the depth below the entry, default allow-all - a function of
    the table and the path, with nothing kept between two calls (a table changed in place is the table the next
    decision is taken on): the text `Model.getPermissions?` transcribes -/
theorem fact_get_permissions_as_modelled : Generated.getPermissionsAsModelled = true := by decide

end C04
