/-
  C17  Concurrent sessions do not interfere with each other.

  On the multi-session model (`Model.Counters.Sys`: one shared `World`, one `SState` per session):

  * `frame` — an event of session `i` leaves EVERY field of every other session unchanged (login state,
    working directory, pending rename, restart offset, listener, data connection …), for all events,
    configurations and trees; a new connection changes no existing session.
  * `step_sees_only_own_state` — what a session's step answers depends on the shared world and its OWN
    state only (it is a function of exactly those), so another session's state is never visible to it.
  * tree isolation — operations below a directory `P` do not change any lookup outside `P`
    (`set_frame`, `erase_frame`, `mkdir_frame`), so a session confined to `P` cannot change what a session
    confined to a disjoint `Q` reads; and two such writes commute (`set_set_commute`).
  The interleaving-equals-solo statement over whole scripts is carried by the differential run (partial).
-/
import AioftpModel.Model.Counters
import AioftpModel.Generated.PathIO
import AioftpModel.Lemmas.ClientTreeFs

namespace C17
open Model Model.Session Model.Counters Py

def sidOf : SysEvent → Option Nat
  | .connect => none
  | .line sid _ _ => some sid
  | .dataConnect sid => some sid
  | .finish sid => some sid

theorem onSession_frame (cfg : Cfg) (sys : Sys) (sid : Nat) (ev : Event) (j : Nat) (hj : j ≠ sid) :
    (onSession cfg sys sid ev).1.sessions[j]? = sys.sessions[j]? := by
  unfold onSession
  cases h : sys.sessions[sid]? with
  | none => rfl
  | some s =>
    simp only []
    rw [List.getElem?_set_ne (Ne.symm hj)]

/-- **frame.**  For every event of the system and every session index `j` that is not the session the event
    is addressed to: session `j` is exactly what it was — all of its fields. -/
theorem frame (cfg : Cfg) (sys : Sys) (ev : SysEvent) (j : Nat) (hj : sidOf ev ≠ some j)
    (hlt : j < sys.sessions.length) :
    (sysStep cfg sys ev).sessions[j]? = sys.sessions[j]? := by
  cases ev with
  | connect =>
    simp only [sysStep, sysStepOut]
    rw [List.getElem?_append_left hlt]
  | line sid raw payload =>
    have : j ≠ sid := fun h => hj (by simp [sidOf, h])
    exact onSession_frame cfg sys sid _ j this
  | dataConnect sid =>
    have : j ≠ sid := fun h => hj (by simp [sidOf, h])
    exact onSession_frame cfg sys sid _ j this
  | finish sid =>
    have : j ≠ sid := fun h => hj (by simp [sidOf, h])
    exact onSession_frame cfg sys sid _ j this

/-- the number of sessions never shrinks and only `connect` adds one -/
theorem sessions_length (cfg : Cfg) (sys : Sys) (ev : SysEvent) :
    (sysStep cfg sys ev).sessions.length =
      sys.sessions.length + (match ev with | .connect => 1 | _ => 0) := by
  cases ev with
  | connect => simp [sysStep, sysStepOut]
  | line sid raw payload =>
    simp only [sysStep, sysStepOut, onSession]
    cases sys.sessions[sid]? <;> simp
  | dataConnect sid =>
    simp only [sysStep, sysStepOut, onSession]
    cases sys.sessions[sid]? <;> simp
  | finish sid =>
    simp only [sysStep, sysStepOut, onSession]
    cases sys.sessions[sid]? <;> simp

/-- **frame over histories**: a whole history none of whose events is addressed to `j` leaves `j` alone -/
theorem frame_run (cfg : Cfg) (sys : Sys) (evs : List SysEvent) (j : Nat)
    (hj : ∀ ev ∈ evs, sidOf ev ≠ some j) (hlt : j < sys.sessions.length) :
    (run cfg sys evs).sessions[j]? = sys.sessions[j]? := by
  induction evs generalizing sys with
  | nil => rfl
  | cons e t ih =>
    simp only [run, List.foldl_cons]
    have h1 := frame cfg sys e j (hj e (by simp)) hlt
    have hlen : j < (sysStep cfg sys e).sessions.length := by
      rw [sessions_length]; omega
    have := ih (sysStep cfg sys e) (fun ev hev => hj ev (by simp [hev])) hlen
    simp only [run] at this
    rw [this, h1]

/-- **step_sees_only_own_state**: the answer to a session's event is a function of the shared world and of
    that session's own state — two systems that agree on those give the same answer and the same new state
    for it, whatever the other sessions are. -/
theorem step_sees_only_own_state (cfg : Cfg) (s₁ s₂ : Sys) (sid : Nat) (ev : Event)
    (hw : s₁.world = s₂.world) (hs : s₁.sessions[sid]? = s₂.sessions[sid]?) :
    (onSession cfg s₁ sid ev).2 = (onSession cfg s₂ sid ev).2 ∧
    (onSession cfg s₁ sid ev).1.sessions[sid]? = (onSession cfg s₂ sid ev).1.sessions[sid]? ∧
    (onSession cfg s₁ sid ev).1.world = (onSession cfg s₂ sid ev).1.world := by
  unfold onSession
  rw [← hs]
  cases h : s₁.sessions[sid]? with
  | none => exact ⟨rfl, by rw [h, ← hs, h], hw⟩
  | some s =>
    have l1 : sid < s₁.sessions.length := by
      rcases List.getElem?_eq_some_iff.mp h with ⟨hl, _⟩; exact hl
    have l2 : sid < s₂.sessions.length := by
      rw [hs] at h
      rcases List.getElem?_eq_some_iff.mp h with ⟨hl, _⟩; exact hl
    simp [hw, List.getElem?_set_self l1, List.getElem?_set_self l2]

/-! ### the shared tree: operations below disjoint directories -/

/-- `p` lies in the subtree of directory `P` (or is `P`) -/
def Under (P p : Path) : Prop := P.isPrefixOf p = true

/-- **set_frame / erase_frame / mkdir_frame**: writing a file, deleting an entry or making directories
    below `P` does not change any lookup outside `P` (the target is never the root itself) -/
theorem set_frame (fs : Fs) (P q p : Path) (e : Entry) (hq : Under P q) (hq0 : q ≠ []) (hp : ¬ Under P p) :
    (Fs.set fs q e).lookup p = fs.lookup p := by
  have hne : p ≠ q := fun h => hp (by rw [h]; exact hq)
  rw [ClientTree.lookup_set fs q p e hq0, if_neg hne]

theorem erase_frame (fs : Fs) (P q p : Path) (hq : Under P q) (hq0 : q ≠ []) (hp : ¬ Under P p) :
    (Fs.erase fs q).lookup p = fs.lookup p := by
  have hne : p ≠ q := fun h => hp (by rw [h]; exact hq)
  rw [ClientTree.lookup_erase fs q p hq0, if_neg hne]

/-- MKD below an EXISTING directory `P` (so no ancestor of `P` has to be created): nothing outside `P` changes -/
theorem mkdir_frame (fs fs' : Fs) (P q p : Path) (hq : Under P q) (hPex : ∀ a, a <+: P → a ≠ [] → fs.lookup a ≠ none)
    (hp : ¬ Under P p) (h : Fs.mkdirParents fs q = some fs') : fs'.lookup p = fs.lookup p := by
  rw [ClientTree.lookup_mkdirParents h p]
  unfold ClientTree.ensured
  split
  · rename_i hc
    obtain ⟨hne, hpre, hnone⟩ := hc
    -- p is a prefix of q ; P is a prefix of q ; so p and P are comparable ; p not under P ⇒ p is a proper prefix of P
    exfalso
    have hPq : P <+: q := List.isPrefixOf_iff_prefix.mp hq
    rcases List.prefix_or_prefix_of_prefix hpre hPq with h1 | h1
    · exact hPex p h1 hne hnone
    · exact hp (List.isPrefixOf_iff_prefix.mpr h1)
  · rfl

/-- writes to different paths commute as far as any lookup can tell -/
theorem set_set_commute (fs : Fs) (q₁ q₂ p : Path) (e₁ e₂ : Entry) (h1 : q₁ ≠ []) (h2 : q₂ ≠ []) (h : q₁ ≠ q₂) :
    (Fs.set (Fs.set fs q₁ e₁) q₂ e₂).lookup p = (Fs.set (Fs.set fs q₂ e₂) q₁ e₁).lookup p := by
  rw [ClientTree.lookup_set _ q₂ p e₂ h2, ClientTree.lookup_set _ q₁ p e₁ h1, ClientTree.lookup_set _ q₁ p e₁ h1,
    ClientTree.lookup_set _ q₂ p e₂ h2]
  by_cases a : p = q₂
  · have : p ≠ q₁ := fun e => h (e.symm.trans a)
    simp [a, this, Ne.symm h]
  · simp [a]

/-! ### non-vacuity -/

/-- two sessions, bob's `CWD /pa` and anonymous' failed `MKD`: neither touches the other -/
example :
    let cfg : Cfg := ⟨[⟨some "bob".toList, none, ⟨1, []⟩, [], none⟩, ⟨none, none, ⟨1, []⟩, [], none⟩], none, false⟩
    let s0 := initSys cfg [(["pa".toList], .dir)]
    let s1 := run cfg s0 [.connect, .connect, .line 0 "USER bob".toList [], .line 1 "USER x".toList []]
    let s2 := sysStep cfg s1 (.line 0 "CWD pa".toList [])
    s2.sessions[1]? = s1.sessions[1]? ∧ (s2.sessions[0]?.map (·.cwd)) = some ⟨1, ["pa".toList]⟩ := by
  decide

/-- **fact_one_backend_instance_per_session**: as regenerated from `pathio.py`, `PathIONursery.__call__` builds a new backend
    instance on every call - the dispatcher calls it once per accepted connection - and shares only `state` between them:
    what a backend keeps on itself (its `connection`, bookkeeping of its own) is one session's -/
theorem fact_one_backend_instance_per_session : Generated.PathIO.nurseryInstancePerCall = true := by decide

end C17
