/-
  C11  The passive data-port pool neither loses nor duplicates ports.

  `Model.PortPool.step` transcribes `Server._start_passive_server`, the 421 exit of `pasv`/`epsv` and the
  give-back in the dispatcher's `finally`; the two class facts the `except OSError` clause depends on and the
  presence of a clause for the cancellation come from the translator (`Generated.noAvailablePortIsOSError`,
  `Generated.cancelledIsOSError`, `Generated.passiveCancelReturnsPort`).

  Reading of the property on the model, for a server configured with `data_ports = ports`:
      Conserved ports st  :=  ∀ p, (#p in the queue) + (#live sessions holding p) = (#p in ports)
  where a session *holds* p from the moment it took p out of the queue (start-up in progress or listening).

  What is proved
    * `pool_accounting`  (full strength, all histories): queue + held + lost = configured, where `lost`
      counts exactly the sessions ended while suspended in `await asyncio.start_server`;
      hence `no_duplication` (full strength).
    * `pool_conservation` and `quiescent_pool_full` at FULL strength, for all histories — cancellation inside
      the awaited start-up included — resting on `fact_cancel_caught` (finding F8 repaired in /repo eb5160b).
      `port_lost_without_cancel_clause` keeps the negative witness as a statement about the old shape.
    * the per-exit theorems `busy_skipped_not_lost`, `exhaustion_421`, `viewed_exit_returns_port`,
      `other_oserror_returns_port`, `listener_port_returned`, `quiescent_pool_full_partial`.
    * 421 can be answered although a port of the pool was never tried (`premature_421`, witness);
      `exhaustion_tries_every_port_partial` says when the search is complete.
    * pipelined passive commands of ONE session (every command is its own task; `Model.PassiveRace`, a counter
      abstraction with an arbitrary scheduler): `pipelined_passive_conserves` - with the per-connection lock of
      the source (`fact_passive_section_locked`, regenerated) no schedule of any number of pipelined PASV/EPSV
      replaces a listener, so the sequential `Model.PortPool.step` is what a batch amounts to;
      `old_pipelined_passive_loses_port` keeps the witness of the defect that was repaired (F16, /repo 8fa26b7).
-/
import AioftpModel.Lemmas.PortPool
import AioftpModel.Lemmas.PassiveRace

namespace C11
open Model.PortPool

/-- pool ⊎ held = configured, as multisets of port numbers -/
def Conserved (ports : List Port) (st : State) : Prop :=
  ∀ p, inPool st p + held st p = ports.count p

/-! ### the class facts of the tree under check (regenerated on every run, decided by the kernel) -/

/-- `NoAvailablePort` is an `OSError`: the "all ports viewed" exit goes through `except OSError` -/
theorem fact_noAvailablePort_is_OSError : facts.naoIsOSError = true := by decide

/-- `CancelledError` is not an `OSError` … -/
theorem fact_cancelled_not_OSError : facts.cancelIsOSError = false := by decide

/-- … but the try around `start_server` has a clause of its own for it, which puts the port back -/
theorem fact_cancel_caught : facts.cancelCaught = true := by decide

/-- the tree as it was pinned: no such clause -/
def oldFacts : Facts := ⟨true, false, false⟩

/-! ### accounting, for all histories -/

/-- **pool_accounting** (full strength): after ANY history, for every port number,
    (#in the queue) + (#held by live sessions) + (#lost by cancellation inside a start-up) = (#configured). -/
theorem pool_accounting (ports : List Port) (evs : List Event) (p : Port) :
    inPool (run facts (initState ports) evs) p + held (run facts (initState ports) evs) p
      + lostIn facts (initState ports) p evs = ports.count p := by
  rw [run_accounting fact_noAvailablePort_is_OSError, init_accounting]

example : inPool (run oldFacts (initState [5000, 5001]) [.connect, .pasv 0, .finish 0]) 5000 = 0
    ∧ lostIn oldFacts (initState [5000, 5001]) 5000 [.connect, .pasv 0, .finish 0] = 1
    ∧ inPool (run facts (initState [5000, 5001]) [.connect, .pasv 0, .finish 0]) 5000 = 1
    ∧ lostIn facts (initState [5000, 5001]) 5000 [.connect, .pasv 0, .finish 0] = 0 := by decide

/-- **no_duplication** (full strength): after any history no port is in the queue or held more often than it
    was configured; in particular a port configured once is never both available and bound, nor bound twice. -/
theorem no_duplication (ports : List Port) (evs : List Event) (p : Port) :
    inPool (run facts (initState ports) evs) p + held (run facts (initState ports) evs) p ≤ ports.count p := by
  have := pool_accounting ports evs p
  omega

theorem at_most_one_holder (ports : List Port) (hnd : ports.Nodup) (evs : List Event) (p : Port) :
    held (run facts (initState ports) evs) p ≤ 1 := by
  have h1 := no_duplication ports evs p
  have h2 : ports.count p ≤ 1 := List.nodup_iff_count.1 hnd p
  omega

example : held (run facts (initState [5000, 5001])
    [.connect, .connect, .pasv 0, .started 0 .ok, .pasv 1, .started 1 .ok]) 5001 = 1 := by decide

/-- **pool_conservation** (full strength): after EVERY prefix of EVERY history — sessions ended at any moment,
    while suspended in `start_server` included — pool ⊎ held is exactly the configured multiset. -/
theorem pool_conservation (ports : List Port) (evs : List Event) (k : Nat) :
    Conserved ports (run facts (initState ports) (evs.take k)) := by
  intro p
  have h1 := pool_accounting ports (evs.take k) p
  have h2 := lostIn_zero_of_cancelCaught fact_cancel_caught (initState ports) (evs.take k) p
  omega

/-- the cancelled start-up gives its port back with the priority it had -/
theorem cancel_in_startup_returns_port (st : State) (i : Nat) (vs : List Port) (prio : Nat) (p : Port)
    (h : st.sessions[i]? = some (.starting vs prio p)) :
    (step facts st (.finish i)).1 = setPhase st i .gone (put (prio, p) st.pool) := by
  simp only [step, h, fact_cancel_caught, if_true]
  rfl

/-- the witness history of finding F8 on the tree as it is now: the port is back -/
theorem port_back_after_cancel :
    run facts (initState [5000, 5001]) [.connect, .pasv 0, .finish 0]
      = { pool := [(0, 5000), (0, 5001)], sessions := [.gone] } := by decide

/-- **port_lost_without_cancel_clause** (what finding F8 was): on the pinned shape a session that ends while
    its PASV/EPSV handler is suspended in `asyncio.start_server` takes the port with it. -/
theorem port_lost_without_cancel_clause :
    run oldFacts (initState [5000, 5001]) [.connect, .pasv 0, .finish 0]
      = { pool := [(0, 5001)], sessions := [.gone] } ∧
    ¬ Conserved [5000, 5001] (run oldFacts (initState [5000, 5001]) [.connect, .pasv 0, .finish 0]) := by
  refine ⟨by decide, ?_⟩
  intro h
  have := h 5000
  revert this
  decide

/-- the loss on the old shape, in general: exactly that port, once -/
theorem cancel_in_startup_lost_exactly_that_port (st : State) (i : Nat) (vs : List Port) (prio : Nat) (p : Port)
    (h : st.sessions[i]? = some (.starting vs prio p)) (q : Port) :
    inPool (step oldFacts st (.finish i)).1 q + held (step oldFacts st (.finish i)).1 q + (if p = q then 1 else 0)
      = inPool st q + held st q := by
  have := step_accounting (f := oldFacts) rfl st (.finish i) q
  simp only [lossOf, h, one] at this
  simpa [oldFacts, Facts.cancelCaught] using this

/-- conservation holds for ANY facts under which the cancellation is caught (by either clause) -/
theorem pool_conservation_of_cancelCaught (f : Facts) (hn : f.naoIsOSError = true) (hc : f.cancelCaught = true)
    (ports : List Port) (evs : List Event) : Conserved ports (run f (initState ports) evs) := by
  intro p
  have h1 := run_accounting hn (initState ports) evs p
  have h2 := lostIn_zero_of_cancelCaught hc (initState ports) evs p
  have h3 := init_accounting ports p
  omega

/-! ### ports found busy -/

/-- **busy_skipped_not_lost**: when `start_server` fails with EADDRINUSE for `p`, then
    (1) `p` is back in the queue with a priority at least one step lower (`priority + 1` or more),
    (2) pool ⊎ held is unchanged for every port, and
    (3) the search goes on: either the session is now suspended in the start-up of another port `q ≠ p`
        that it had not viewed, or the search is over with 421 and the session ends. -/
theorem busy_skipped_not_lost (st : State) (i : Nat) (vs : List Port) (prio : Nat) (p : Port)
    (h : st.sessions[i]? = some (.starting vs prio p)) (hp : vs.contains p = true) :
    let r := step facts st (.started i .addrInUse)
    (∃ k, prio + 1 ≤ k ∧ (k, p) ∈ r.1.pool) ∧
    (∀ q, inPool r.1 q + held r.1 q = inPool st q + held st q) ∧
    ((∃ vs' prio' q, r.1.sessions[i]? = some (.starting vs' prio' q) ∧ q ≠ p ∧ vs.contains q = false ∧
        vs' = q :: vs ∧ r.2 = .none) ∨
      (r.1.sessions[i]? = some .gone ∧ r.2 = .noFreePorts)) := by
  intro r
  refine ⟨?_, ?_, ?_⟩
  · have := busy_requeued fact_noAvailablePort_is_OSError st i vs prio p hp
    simpa only [r, step, h] using this
  · intro q
    have := step_accounting fact_noAvailablePort_is_OSError st (.started i .addrInUse) q
    simpa [lossOf, one] using this
  · have := busy_next (f := facts) st i vs prio p h hp
    simpa only [r, step, h] using this

/-- the hypothesis `p ∈ viewed` holds in every reachable state -/
theorem starting_port_viewed (ports : List Port) (evs : List Event) (i : Nat) (vs : List Port) (prio : Nat)
    (p : Port) (h : (run facts (initState ports) evs).sessions[i]? = some (.starting vs prio p)) :
    vs.contains p = true :=
  WF_run (WF_init ports) evs i vs prio p h

example : step facts { pool := [(0, 5001)], sessions := [.starting [5000] 0 5000] } (.started 0 .addrInUse)
    = ({ pool := [(1, 5000)], sessions := [.starting [5001, 5000] 0 5001] }, .none) := by decide

/-! ### exhaustion -/

/-- which exit the loop takes: `NoAvailablePort` iff the queue is empty or the port of its least entry has
    already been viewed in this start-up -/
theorem noAvailablePort_iff (vs : List Port) (pool : List Item) :
    (∃ pool', search facts vs pool = .noPort pool') ↔
      pool = [] ∨ ∃ prio q rest, pool = (prio, q) :: rest ∧ vs.contains q = true :=
  search_noPort_iff facts vs pool

/-- **viewed_exit_returns_port** (needs `NoAvailablePort <: OSError`): on the "already viewed" exit the entry
    just taken is put back (one step down), so the queue holds the same ports as before the `get_nowait` -/
theorem viewed_exit_returns_port (vs : List Port) (prio : Nat) (q : Port) (rest : List Item)
    (hv : vs.contains q = true) :
    search facts vs ((prio, q) :: rest) = .noPort (put (prio + 1, q) rest) := by
  have hv' : q ∈ vs := by simpa using hv
  simp [search, Model.PortPool.get, hv', fact_noAvailablePort_is_OSError]

/-- and on both `NoAvailablePort` exits the queue is whole: same ports with the same multiplicities -/
theorem noAvailablePort_pool_whole (vs : List Port) (pool pool' : List Item)
    (h : search facts vs pool = .noPort pool') (p : Port) :
    (pool'.map Prod.snd).count p = (pool.map Prod.snd).count p :=
  search_noPort_count fact_noAvailablePort_is_OSError h p

/-- were `NoAvailablePort` not an `OSError`, the viewed exit would drop the entry (counterfactual witness,
    the mutation the translator guards against) -/
theorem viewed_exit_would_lose_port_if_not_OSError :
    search ⟨false, false, false⟩ [5000] [(1, 5000)] = .noPort [] := by decide

/-- **exhaustion_421**: a PASV/EPSV in a session without listener, followed by EADDRINUSE for every port it
    tries (any number `n ≥ |queue|` of such answers is enough), ends with reply 421 and the end of the session,
    never with a listener; afterwards the queue holds exactly the ports it held before (only priorities
    moved), and no other session was touched.  In particular the search terminates. -/
theorem exhaustion_421 (st : State) (i n : Nat) (h : st.sessions[i]? = some .idle) (hlen : st.pool.length ≤ n) :
    let r := runOut facts st (.pasv i :: busyN n i)
    r.1.sessions[i]? = some .gone ∧ Reply.noFreePorts ∈ r.2 ∧ Reply.created ∉ r.2 ∧
      (∀ q, inPool r.1 q = inPool st q) ∧ (∀ j, j ≠ i → r.1.sessions[j]? = st.sessions[j]?) :=
  pasv_all_busy fact_noAvailablePort_is_OSError st i n h hlen

example : runOut facts { pool := [(0, 5000), (0, 5001)], sessions := [.idle] } (.pasv 0 :: busyN 2 0)
    = ({ pool := [(1, 5001), (2, 5000)], sessions := [.gone] }, [.none, .none, .noFreePorts]) := by decide

/-- an empty pool (`data_ports=[]`, or every port taken): 421 at once -/
theorem exhaustion_421_empty (st : State) (i : Nat) (h : st.sessions[i]? = some .idle) (he : st.pool = []) :
    step facts st (.pasv i) = (setPhase st i .gone [], .noFreePorts) := by
  simp [step, h, he, search, Model.PortPool.get, afterSearch]

example : step facts (run facts (initState []) [.connect]) (.pasv 0)
    = ({ pool := [], sessions := [.gone] }, .noFreePorts) := by decide

/-- 421 does NOT imply that every port of the pool was tried: the search stops at the first entry whose port
    it has viewed, and a port found busy earlier sits behind it with a larger priority.  Reachable witness:
    ports 1 and 2; session 0 listens on 1; session 1 finds 2 busy (2 ends at priority 2); session 0 quits
    (1 back at priority 0); session 2 finds 1 busy once and is told 421 although 2 was never tried. -/
theorem premature_421 :
    let st := run facts (initState [1, 2])
      [.connect, .connect, .pasv 0, .started 0 .ok, .pasv 1, .started 1 .addrInUse, .finish 0, .connect]
    st.pool = [(0, 1), (2, 2)] ∧
    step facts st (.pasv 2) = ({ st with pool := [(2, 2)], sessions := st.sessions.set 2 (.starting [1] 0 1) }, .none) ∧
    (step facts (step facts st (.pasv 2)).1 (.started 2 .addrInUse)).2 = .noFreePorts := by decide

/-- the queue of every reachable state is sorted (it is a priority queue) -/
theorem pool_sorted (ports : List Port) (evs : List Event) :
    SortedPool (run facts (initState ports) evs).pool :=
  sorted_run (sorted_initPool ports) evs

/-- **exhaustion_tries_every_port_partial**: what does hold about the completeness of the search.  If, when the
    PASV/EPSV arrives, all entries of the queue have the same priority and their ports are pairwise distinct,
    and nothing else touches the queue meanwhile (the history is just this start-up), then before 421 is
    answered `start_server` has been called for every port of the queue.  `premature_421` shows that neither
    hypothesis can be dropped (unequal priorities there; duplicated entries in `duplicate_ports_as_coded`). -/
theorem exhaustion_tries_every_port_partial (st : State) (i n k : Nat) (h : st.sessions[i]? = some .idle)
    (hso : SortedPool st.pool) (hlv : ∀ x ∈ st.pool, x.1 = k) (hnd : (poolPorts st).Nodup)
    (hlen : st.pool.length ≤ n) :
    ∀ q ∈ poolPorts st, q ∈ attempted facts st i (.pasv i :: busyN n i) :=
  pasv_all_busy_attempts st i n k h hso hlv hnd hlen

example : attempted facts { pool := [(1, 5000), (1, 5001), (1, 5002)], sessions := [.idle] } 0 (.pasv 0 :: busyN 3 0)
    = [5000, 5001, 5002] := by decide

/-! ### other errors, orderly ends, repeated PASV -/

/-- **other_oserror_returns_port**: an `OSError` other than EADDRINUSE from `start_server` puts the port back
    (one step down) before it propagates; nothing catches it afterwards, so the session ends without a reply. -/
theorem other_oserror_returns_port (st : State) (i : Nat) (vs : List Port) (prio : Nat) (p : Port)
    (h : st.sessions[i]? = some (.starting vs prio p)) :
    step facts st (.started i .otherOSError) = (setPhase st i .gone (put (prio + 1, p) st.pool), .crashed) ∧
      ∀ q, inPool (step facts st (.started i .otherOSError)).1 q + held (step facts st (.started i .otherOSError)).1 q
        = inPool st q + held st q := by
  refine ⟨by simp [step, h], ?_⟩
  intro q
  have := step_accounting fact_noAvailablePort_is_OSError st (.started i .otherOSError) q
  simpa [lossOf, one] using this

example : step facts { pool := [(0, 5001)], sessions := [.starting [5000] 0 5000] } (.started 0 .otherOSError)
    = ({ pool := [(0, 5001), (1, 5000)], sessions := [.gone] }, .crashed) := by decide

/-- **listener_port_returned**: a session that ends while listening gives its port back at priority 0 -/
theorem listener_port_returned (st : State) (i : Nat) (p : Port) (h : st.sessions[i]? = some (.listening p)) :
    step facts st (.finish i) = (setPhase st i .gone (put (0, p) st.pool), .none) := by
  simp [step, h]

/-- a repeated PASV/EPSV in a session that already listens takes nothing from the pool -/
theorem repeated_pasv_keeps_port (st : State) (i : Nat) (p : Port) (h : st.sessions[i]? = some (.listening p)) :
    step facts st (.pasv i) = (st, .already) := by
  simp [step, h]

/-- a successful start-up keeps the port held by the same session -/
theorem started_ok_holds (st : State) (i : Nat) (vs : List Port) (prio : Nat) (p : Port)
    (h : st.sessions[i]? = some (.starting vs prio p)) :
    step facts st (.started i .ok) = (setPhase st i (.listening p) st.pool, .created) := by
  simp [step, h]

/-! ### quiescence -/

/-- **quiescent_pool_accounting** (full strength): once every session is gone, the queue holds the configured
    ports minus those lost by cancellation inside a start-up -/
theorem quiescent_pool_accounting (ports : List Port) (evs : List Event)
    (hg : allGone (run facts (initState ports) evs)) (p : Port) :
    inPool (run facts (initState ports) evs) p + lostIn facts (initState ports) p evs = ports.count p := by
  have h1 := pool_accounting ports evs p
  have h2 := held_zero_of_allGone hg p
  omega

/-- **quiescent_pool_full** (full strength): after ANY history, once every session is gone the queue holds
    exactly the configured ports (with multiplicity) -/
theorem quiescent_pool_full (ports : List Port) (evs : List Event)
    (hg : allGone (run facts (initState ports) evs)) (p : Port) :
    inPool (run facts (initState ports) evs) p = ports.count p := by
  have h1 := quiescent_pool_accounting ports evs hg p
  have h2 := lostIn_zero_of_cancelCaught fact_cancel_caught (initState ports) evs p
  omega

example : run facts (initState [5000, 5001])
    [.connect, .connect, .pasv 0, .started 0 .addrInUse, .started 0 .ok, .pasv 1, .started 1 .addrInUse,
     .finish 0, .finish 1]
    = { pool := [(0, 5001), (3, 5000)], sessions := [.gone, .gone] } := by decide

/-- all sessions gone after a cut inside the start-up: the pool is full now, was one short on the old shape -/
theorem quiescent_after_cut :
    allGone (run facts (initState [5000, 5001]) [.connect, .pasv 0, .finish 0]) ∧
      inPool (run facts (initState [5000, 5001]) [.connect, .pasv 0, .finish 0]) 5000 = 1 ∧
      inPool (run oldFacts (initState [5000, 5001]) [.connect, .pasv 0, .finish 0]) 5000 = 0 := by
  refine ⟨?_, by decide, by decide⟩
  rw [port_back_after_cancel]
  intro ph hph
  simpa using hph

/-! ### duplicates in `data_ports` are kept as they are -/

/-- `data_ports=[5000, 5000]`: two entries; the second session finds the port bound (EADDRINUSE), meets the
    entry again as "viewed" and is told 421; both entries are back when everybody is gone -/
theorem duplicate_ports_as_coded :
    initPool [5000, 5000] = [(0, 5000), (0, 5000)] ∧
    runOut facts (initState [5000, 5000])
        [.connect, .connect, .pasv 0, .started 0 .ok, .pasv 1, .started 1 .addrInUse, .finish 0]
      = ({ pool := [(0, 5000), (2, 5000)], sessions := [.gone, .gone] },
          [.none, .none, .none, .created, .none, .noFreePorts, .none]) := by decide

/-! ### pipelined passive commands of one session (every command runs as its own task) -/

section pipelined
open Model.PassiveRace

/-- obligation over the regenerated source: PASV and EPSV test for a listener, start one and record it inside
    `async with` on a per-connection lock that the dispatcher creates with the connection -/
theorem fact_passive_section_locked : Generated.passiveStartLocked = true := by decide

/-- **pipelined_passive_conserves** (all schedules, any number of pipelined commands, any pool): as the source is
    now, however the handlers of `n` pipelined PASV/EPSV of one session are interleaved, no listener is ever
    replaced (nothing leaks), at most one start-up is asleep at any moment, every port the state holds was
    configured, and their number never changes. -/
theorem pipelined_passive_conserves (ports : List Nat) (n : Nat) (evs : List Ev) :
    (runNow ports n evs).leaked = [] ∧
    (runNow ports n evs).starting.length ≤ 1 ∧
    (runNow ports n evs).total = ports.length ∧
    (∀ p ∈ (runNow ports n evs).ports, p ∈ ports) := by
  unfold runNow
  rw [fact_passive_section_locked]
  have hI := run_inv (init ports n) evs (init_inv ports n)
  refine ⟨hI.noLeak, by have := hI.one; omega, ?_, ?_⟩
  · rw [run_total]; simp [init, St.total]
  · intro p hp
    have := run_ports_subset true (init ports n) evs p hp
    simpa [init, St.ports] using this

/-- once the batch is over, the pool and the session's one listener account for every configured port -/
theorem pipelined_passive_quiescent (ports : List Nat) (n : Nat) (evs : List Ev)
    (hq : (runNow ports n evs).quiescent) :
    (runNow ports n evs).pool.length + (runNow ports n evs).listener.toList.length = ports.length := by
  obtain ⟨hl, _, ht, _⟩ := pipelined_passive_conserves ports n evs
  obtain ⟨_, _, hs⟩ := hq
  simp only [St.total, hl, hs, List.length_nil] at ht
  omega

/-- the batch does what one command after the other does: with a free port the first command through the region
    starts the listener and every later one finds it (witness on three pipelined commands, two schedules) -/
theorem pipelined_passive_examples :
    runNow [5000, 5001] 3 [.acquire, .acquire, .check, .acquire, .finish 0, .acquire, .check, .acquire, .check] =
      { pool := [5001], listener := some 5000, lock := false, leaked := [], waiting := 0, checking := 0, starting := [] } ∧
    (runNow [5000, 5001] 2 [.acquire, .check, .acquire, .check, .finish 0, .acquire, .check]).quiescent := by
  refine ⟨by decide, by decide⟩

/-- **old_pipelined_passive_loses_port** (the defect that was repaired, F16): without the lock two pipelined
    passive commands both pass the test before either start-up has returned; the second assignment replaces the
    first listener, whose port is neither in the pool nor the session's - for good -/
theorem old_pipelined_passive_loses_port :
    run false (init [5000, 5001, 5002] 2) [.acquire, .acquire, .check, .check, .finish 1, .finish 0] =
      { pool := [5002], listener := some 5001, lock := false, leaked := [5000], waiting := 0, checking := 0, starting := [] } := by
  decide

end pipelined

end C11
