/-
  C05  Command dispatcher conforms to a sequential FTP session model.
  `Model.Session.step` is the reference model; these theorems state that the reference is a sane FTP
  session for all states and commands.  Conformance of the code to it is the correspondence run.
-/
import AioftpModel.Model.Session

namespace C05
open Model Model.Session Py Generated

/-- an unsupported verb gets 502 and changes nothing -/
theorem unknown_502 (cfg : Cfg) (w : World) (s : SState) (raw : Str) (payload : Bytes)
    (hs : s.alive = true) (h : verbOf (parseCommand raw).1 = none) :
    step cfg w s (.line raw payload) = (w, s, { replies := [502] }) := by
  unfold step step0
  simp only [h, hs, if_true]

end C05
