/-
  C05  Command dispatcher conforms to a sequential FTP session model.

  `Model.Session.step` is the sequential reference model (guard stacks regenerated from the live
  decorators).  The theorems below say that the reference is a sane FTP session, for all states, trees and
  command lines; where the pinned code is NOT sane the negation is proved on a witness and the `_partial`
  theorem says what does hold.  That the code conforms to the reference is the correspondence run.
-/
import AioftpModel.Lemmas.Dispatch
import AioftpModel.Lemmas.Session
import AioftpModel.Lemmas.Logs

namespace C05
open Model Model.Session Py Generated

def isMark (c : Nat) : Bool := 100 ≤ c && c < 200
def marks (l : List Nat) : List Nat := l.filter isMark
def finals (l : List Nat) : List Nat := l.filter (fun c => !isMark c)

def transferVerbs : List Verb := [.retr, .stor, .appe, .list, .mlsd]

/-- **unknown_502**: an unsupported verb gets 502 and changes nothing but the restart offset, which it
    clears (like every other command that is not a transfer) -/
theorem unknown_502 (cfg : Cfg) (w : World) (s : SState) (name rest : Str) (payload : Bytes)
    (h : verbOf name = none) :
    dispatch cfg w s name rest payload = (w, { s with restartOffset := 0 }, { replies := [502] }) := by
  unfold dispatch; rw [h]
  simp only [resetRestart, dispatchEffect, h]
  rfl

/-- table obligations (re-decided whenever the decorators in the source change) -/
theorem guards_wellformed (v : Verb) : v.guards.all guardOk = true := guards_wellformed_b v (all_verbs v)
theorem login_first (v : Verb) : loginFirst v.guards = true := login_first_b v (all_verbs v)

/-- PASS runs its body only with a pending user; RNTO only with a pending rename -/
theorem pass_needs_user : Verb.pass.guards = [.conn [.user] false 503] := by decide
theorem rnto_needs_rnfr : ∃ t, Verb.rnto.guards = .conn [.logged, .renameFrom] false 503 :: t := ⟨_, rfl⟩

/-- **crash_only_rest**: from an invariant state, the only way a command could be left without any reply
    is `REST` with an argument that the handler's guard accepts and `int()` rejects
    (that was finding F1 while the guard was `str.isdigit`; see `rest_total` below). -/
theorem crash_only_rest (cfg : Cfg) (w : World) (s : SState) (name rest : Str) (payload : Bytes)
    (hinv : Inv cfg s) (hc : (dispatch cfg w s name rest payload).2.2.crashed = true) :
    verbOf name = some .rest ∧ restAccepts rest = true ∧ intOfDigits? rest = none := by
  unfold dispatch at hc
  cases hv : verbOf name with
  | none => simp [hv] at hc
  | some v =>
    simp only [hv] at hc
    unfold runVerb at hc
    have hinv' := hinv.resetRestart name
    generalize resetRestart name s = s0 at hc hinv'
    cases hg : runGuards cfg w s0 (argOf s0 v rest) v.guards with
    | fail c => simp [hg] at hc
    | silent => simp [hg] at hc
    | crash => exact absurd hg (runGuards_no_crash cfg w s0 _ hinv' _ (login_first v))
    | pass =>
      simp only [hg] at hc
      cases v with
      | rest =>
        refine ⟨rfl, ?_⟩
        simp only [body] at hc
        split at hc
        · rename_i hd
          split at hc
          · simp at hc
          · rename_i hn; exact ⟨hd, hn⟩
        · simp at hc
      | pass =>
        exfalso
        have hu : s0.user.isSome = true := by
          have := runGuards_pass_first_conn (t := []) (by rw [← pass_needs_user]; exact hg) Field.user (by simp)
          simpa [fieldSet] using this
        obtain ⟨i, hi⟩ := Option.isSome_iff_exists.mp hu
        obtain ⟨u, hu'⟩ := Option.isSome_iff_exists.mp (hinv'.2 i hi)
        simp only [body] at hc
        split at hc
        · simp at hc
        · simp only [hi, Option.bind, hu'] at hc
          split at hc <;> simp at hc
      | rnto =>
        exfalso
        obtain ⟨t, ht⟩ := rnto_needs_rnfr
        have hr : s0.renameFrom.isSome = true := by
          have := runGuards_pass_first_conn (by rw [← ht]; exact hg) Field.renameFrom (by simp)
          simpa [fieldSet] using this
        obtain ⟨src, hsrc⟩ := Option.isSome_iff_exists.mp hr
        simp [body, hsrc] at hc
      | user => simp [body] at hc
      | quit => simp [body] at hc
      | pwd => simp [body] at hc
      | cwd => simp [body] at hc
      | cdup => simp [body] at hc
      | mkd => simp only [body] at hc; split at hc <;> simp at hc
      | rmd => simp only [body] at hc; split at hc <;> simp at hc
      | dele => simp only [body] at hc; split at hc <;> simp at hc
      | mlst => simp [body] at hc
      | rnfr => simp [body] at hc
      | list => simp only [body, worker, workerK] at hc; split at hc <;> simp at hc
      | mlsd => simp only [body, worker, workerK] at hc; split at hc <;> simp at hc
      | retr =>
        simp only [body, worker, workerK] at hc
        split at hc
        · simp at hc
        · split at hc <;> simp at hc
      | stor =>
        simp only [body, worker, workerK] at hc
        split at hc
        · split at hc
          · simp at hc
          · split at hc <;> simp at hc
        · simp at hc
      | appe =>
        simp only [body, worker, workerK] at hc
        split at hc
        · split at hc
          · simp at hc
          · split at hc <;> simp at hc
        · simp at hc
      | type => simp [body] at hc
      | pbsz => simp [body] at hc
      | prot => simp [body] at hc
      | pasv => simp only [body] at hc; split at hc <;> simp at hc
      | epsv => simp only [body] at hc; split at hc <;> simp at hc
      | abor => simp [body] at hc
      | syst => simp [body] at hc

/-- the guard of `int(rest)` as the source has it now (regenerated): `str.isdecimal` -/
theorem rest_guard_is_isdecimal : restPredicate = "isdecimal" := by decide

/-- **rest_total** (F1 repaired): what the guard accepts, `int()` accepts — REST always replies -/
theorem rest_total (rest : Str) (h : restAccepts rest = true) : (intOfDigits? rest).isSome = true := by
  unfold restAccepts at h
  rw [if_pos rest_guard_is_isdecimal] at h
  exact int_of_decimal_total rest h

/-- **no_crash**: from an invariant state every command is answered -/
theorem no_crash (cfg : Cfg) (w : World) (s : SState) (name rest : Str) (payload : Bytes) (hinv : Inv cfg s) :
    (dispatch cfg w s name rest payload).2.2.crashed = false := by
  cases hc : (dispatch cfg w s name rest payload).2.2.crashed with
  | false => rfl
  | true =>
    obtain ⟨_, h2, h3⟩ := crash_only_rest cfg w s name rest payload hinv hc
    have := rest_total rest h2
    rw [h3] at this
    simp at this

/-- `REST ²` (superscript two: `isdigit` but not `isdecimal`) is answered 501 and the session lives on -/
theorem rest_superscript_answered :
    let r := step ⟨[], none, false⟩ ⟨[], none, []⟩ {} (.line ['R', 'E', 'S', 'T', ' ', '²'] [])
    r.2.2.crashed = false ∧ r.2.2.replies = [501] ∧ r.2.1.alive = true := by
  decide

theorem getUser_code (cfg : Cfg) (w : World) (login : Str) :
    (getUser cfg w login).1 = 530 ∨ (getUser cfg w login).1 = 230 ∨ (getUser cfg w login).1 = 331 := by
  unfold getUser
  (repeat' split) <;> simp

/-- replies of a body that ran: exactly one final reply, at most one mark, a mark only for transfers -/
theorem body_reply_shape (cfg : Cfg) (w : World) (s : SState) (v : Verb) (rest : Str) (arg : PPath)
    (payload : Bytes) (hc : (body cfg w s v rest arg payload).2.2.crashed = false) :
    let o := (body cfg w s v rest arg payload).2.2
    (finals o.replies).length = 1 ∧ (marks o.replies).length ≤ 1 ∧
    (marks o.replies ≠ [] → v ∈ transferVerbs) := by
  cases v
  case user =>
    have key : ∀ w' : World,
        (finals [(getUser cfg w' rest).1]).length = 1 ∧ (marks [(getUser cfg w' rest).1]).length ≤ 1 ∧
        (marks [(getUser cfg w' rest).1] ≠ [] → Verb.user ∈ transferVerbs) := by
      intro w'
      rcases getUser_code cfg w' rest with h | h | h <;> rw [h] <;> simp [finals, marks, isMark]
    simp only [body]
    exact key _
  all_goals
    simp only [body, worker, workerK] at hc ⊢ <;> (repeat' split) <;>
      simp_all [finals, marks, isMark, transferVerbs]

/-- **one_final_reply.**  Every command that is answered at all gets exactly one final reply, preceded by
    at most one 1xx mark, and a mark only for a transfer verb. -/
theorem one_final_reply (cfg : Cfg) (w : World) (s : SState) (name rest : Str) (payload : Bytes)
    (hc : (dispatch cfg w s name rest payload).2.2.crashed = false) :
    let o := (dispatch cfg w s name rest payload).2.2
    (finals o.replies).length = 1 ∧ (marks o.replies).length ≤ 1 ∧
    (marks o.replies ≠ [] → ∃ v, verbOf name = some v ∧ v ∈ transferVerbs) := by
  simp only
  unfold dispatch at hc ⊢
  cases hv : verbOf name with
  | none => simp [finals, marks, isMark]
  | some v =>
    simp only [hv] at hc ⊢
    unfold runVerb at hc ⊢
    generalize resetRestart name s = s0 at hc ⊢
    cases hg : runGuards cfg w s0 (argOf s0 v rest) v.guards with
    | fail c =>
      rcases runGuards_fail_code cfg w s0 _ _ (guards_wellformed v) c hg with rfl | rfl <;>
        simp [finals, marks, isMark]
    | silent => exact absurd hg (runGuards_not_silent cfg w s0 _ _ (guards_wellformed v))
    | crash => simp [hg] at hc
    | pass =>
      simp only [hg] at hc ⊢
      obtain ⟨h1, h2, h3⟩ := body_reply_shape cfg w s0 v rest _ payload hc
      exact ⟨h1, h2, fun hm => ⟨v, rfl, h3 hm⟩⟩

/-- **out_of_sequence_503**: a command whose stack starts with a `ConnectionConditions` naming a field
    the session does not have is answered 503 and changes nothing but the restart offset. -/
theorem out_of_sequence_503 (cfg : Cfg) (w : World) (s : SState) (name rest : Str) (payload : Bytes)
    (v : Verb) (hv : verbOf name = some v) (fs : List Field) (wt : Bool) (t : List Guard)
    (hg : v.guards = .conn fs wt 503 :: t) (f : Field) (hf : f ∈ fs) (hmiss : fieldSet s f = false) :
    dispatch cfg w s name rest payload = (w, resetRestart name s, { replies := [503] }) := by
  unfold dispatch
  simp only [hv]
  unfold runVerb
  rw [hg, runGuards_cons]
  rcases runGuard_conn_cases cfg w (resetRestart name s) (argOf (resetRestart name s) v rest) fs wt 503
    with ⟨_, hall⟩ | h
  · have := hall f hf
    cases f <;> simp [fieldSet] at this hmiss <;> simp_all
  · rw [h]

/-- instances: transfer without PASV/EPSV, RNTO without RNFR, PASS without USER -/
example : ∃ t, Verb.retr.guards = .conn [.logged, .passiveServer] false 503 :: t := ⟨_, rfl⟩
example : ∃ t, Verb.stor.guards = .conn [.logged, .passiveServer] false 503 :: t := ⟨_, rfl⟩
example : ∃ t, Verb.list.guards = .conn [.logged, .passiveServer] false 503 :: t := ⟨_, rfl⟩

/-- **session_ends_only_after.**  The model ends a session by itself only after one of these replies:
    221 to QUIT, or 503 to PASV on an IPv6 listener (EPSV-with-argument no longer does: finding F10 repaired). -/
theorem session_ends_only_after (cfg : Cfg) (w : World) (s : SState) (name rest : Str) (payload : Bytes)
    (ha : s.alive = true) (hd : (dispatch cfg w s name rest payload).2.1.alive = false)
    (hc : (dispatch cfg w s name rest payload).2.2.crashed = false) :
    let o := (dispatch cfg w s name rest payload).2.2
    (verbOf name = some .quit ∧ o.replies = [221]) ∨
    (verbOf name = some .pasv ∧ cfg.ipv6 = true ∧ o.replies = [503]) := by
  simp only
  unfold dispatch at hd hc ⊢
  cases hv : verbOf name with
  | none => simp [hv, ha] at hd
  | some v =>
    simp only [hv] at hd hc ⊢
    unfold runVerb at hd hc ⊢
    have ha' : (resetRestart name s).alive = true := by simpa using ha
    generalize resetRestart name s = s0 at hd hc ha' ⊢
    cases hg : runGuards cfg w s0 (argOf s0 v rest) v.guards with
    | fail c => simp [hg, ha'] at hd
    | silent => simp [hg, ha'] at hd
    | crash => simp [hg] at hc
    | pass =>
      simp only [hg] at hd hc ⊢
      have h522 : Verb.epsv.closingCodes.contains 522 = false := by decide
      cases v <;> simp only [body, worker, workerK, h522] at hd hc ⊢ <;> (repeat' split at hd) <;>
        simp_all

/-- the set of replies after which a handler returns False, as the translator found it in the source -/
theorem closing_codes_table :
    (Verb.all.filter (fun v => !v.closingCodes.isEmpty)).map (fun v => (v.name, v.closingCodes)) =
      [("epsv", [421]), ("pasv", [421, 503]), ("quit", [221])] := by decide

/-- F10 repaired: `EPSV <argument>` is answered 522 and the session goes on -/
theorem epsv_argument_keeps_session (cfg : Cfg) (w : World) (s : SState) (rest : Str) (arg : PPath)
    (payload : Bytes) (h : rest ≠ []) (ha : s.alive = true) :
    (body cfg w s .epsv rest arg payload).2.2.replies = [522] ∧ (body cfg w s .epsv rest arg payload).2.1.alive = true := by
  have h522 : ¬ (522 ∈ Verb.epsv.closingCodes) := by decide
  have : rest.isEmpty = false := by cases rest <;> simp_all
  simp [body, this, h522, ha]

/-! ### restart offset: scope -/

/-- what the dispatcher does to the two offsets before the handler runs, as the translator interpreted the
    source: the restart offset is cleared for EVERY command (REST sets it again in its handler), and a
    RETR/STOR/APPE receives the old value as its transfer offset -/
theorem dispatch_offsets_table :
    (∀ v ∈ Verb.all, v.dispatchOffsets =
      (if v ∈ [Verb.retr, .stor, .appe] then (OffSrc.zero, OffSrc.restart) else (OffSrc.zero, OffSrc.transfer))) ∧
    dispatchOffsetsUnknown = (OffSrc.zero, OffSrc.transfer) := by decide

/-- the three file-transfer workers seek to the offset handed over at dispatch, nothing else -/
theorem offset_field_table :
    (Verb.all.filter (fun v => v.offsetField ≠ "")).map (fun v => (v.name, v.offsetField)) =
      [("appe", "transfer_offset"), ("retr", "transfer_offset"), ("stor", "transfer_offset")] := by decide

theorem all_verbs_mem (v : Verb) : v ∈ Verb.all := by cases v <;> decide

/-- at dispatch the restart offset is cleared, whatever the command -/
theorem dispatch_clears_restart (name : Str) (s : SState) : (resetRestart name s).restartOffset = 0 := by
  simp only [resetRestart, dispatchEffect]
  cases hv : verbOf name with
  | none => simp [dispatch_offsets_table.2, evalOff]
  | some v =>
    have := dispatch_offsets_table.1 v (all_verbs_mem v)
    simp only [this]
    split <;> rfl

/-- **rest_scope** (full strength; finding F2 repaired in /repo b5719d5): EVERY command other than REST itself —
    a transfer, a refused transfer, any other verb, an unknown verb — leaves the restart offset at 0, whatever
    it was before and whatever the command's outcome. -/
theorem rest_scope (cfg : Cfg) (w : World) (s : SState) (name rest : Str) (payload : Bytes)
    (hr : verbOf name ≠ some .rest) :
    (dispatch cfg w s name rest payload).2.1.restartOffset = 0 := by
  unfold dispatch
  cases hv : verbOf name with
  | none => exact dispatch_clears_restart name s
  | some v =>
    have hvr : v ≠ .rest := fun h => hr (by rw [hv, h])
    simp only []
    unfold runVerb
    have h0 := dispatch_clears_restart name s
    generalize resetRestart name s = s0 at h0 ⊢
    cases hg : runGuards cfg w s0 (argOf s0 v rest) v.guards with
    | fail c => simpa using h0
    | silent => simpa using h0
    | crash => simpa using h0
    | pass =>
      simp only []
      cases v <;> simp only [body, worker, workerK] <;> (repeat' split) <;> simp_all

/-- **rest_applies_to_next_transfer**: the transfer command that immediately follows sees exactly the offset
    REST left (`s.restartOffset`), for each of RETR, STOR and APPE -/
theorem rest_applies_to_next_transfer (name : Str) (s : SState) (v : Verb) (hv : verbOf name = some v)
    (ht : v ∈ [Verb.retr, .stor, .appe]) :
    xferOffset v (resetRestart name s) = s.restartOffset := by
  simp only [List.mem_cons, List.not_mem_nil, or_false] at ht
  rcases ht with rfl | rfl | rfl <;>
    simp (config := {decide := true}) [xferOffset, resetRestart, dispatchEffect, hv, Verb.offsetField,
      Verb.dispatchOffsets, evalOff]

/-- **offset_only_for_the_next_transfer**: after any command other than REST, a transfer command sees offset 0 -/
theorem offset_only_for_the_next_transfer (cfg : Cfg) (w : World) (s : SState) (name rest : Str) (payload : Bytes)
    (hr : verbOf name ≠ some .rest) (name₂ : Str) (v : Verb) (hv : verbOf name₂ = some v)
    (ht : v ∈ [Verb.retr, .stor, .appe]) :
    xferOffset v (resetRestart name₂ (dispatch cfg w s name rest payload).2.1) = 0 := by
  rw [rest_applies_to_next_transfer name₂ _ v hv ht]
  exact rest_scope cfg w s name rest payload hr

/-- the replay of finding F2 on the tree as it is now: `REST 3` pending, the first RETR starts at 3 and clears
    the offset, the second RETR delivers the whole file -/
theorem second_transfer_starts_at_zero :
    let cfg : Cfg := ⟨[⟨none, none, ⟨1, []⟩, [], none⟩], none, false⟩
    let w : World := ⟨[(["f".toList], .file [1, 2, 3, 4, 5])], none, [none]⟩
    let s : SState := { user := some 0, logged := true, passive := true, dataConn := true, restartOffset := 3 }
    let r1 := step cfg w s (.line "RETR f".toList [])
    let s1 := { r1.2.1 with dataConn := true }
    let r2 := step cfg r1.1 s1 (.line "RETR f".toList [])
    r1.2.2.data = [4, 5] ∧ r1.2.1.restartOffset = 0 ∧ r2.2.2.data = [1, 2, 3, 4, 5] := by
  decide

/-- an unknown verb clears the offset too -/
theorem unknown_verb_clears_restart (cfg : Cfg) (w : World) (s : SState) (name rest : Str) (payload : Bytes)
    (h : verbOf name = none) :
    (dispatch cfg w s name rest payload).2.1.restartOffset = 0 := by
  rw [unknown_502 cfg w s name rest payload h]

/-- **old_offset_outlived_transfer** (what finding F2 was): the pinned dispatcher left both offsets alone for
    RETR/STOR/APPE and for unknown verbs (effect `(restart, transfer)`) and the workers read `restart_offset`:
    the offset a transfer saw was still there for the next one. -/
theorem old_offset_outlived_transfer (s : SState) :
    evalOff s (OffSrc.restart, OffSrc.transfer).1 = s.restartOffset := rfl

/-! ### pairing and re-login -/

/-- a successful RNTO consumes the pending rename -/
theorem rnto_consumes_rename (cfg : Cfg) (w : World) (s : SState) (rest : Str) (arg : PPath)
    (payload : Bytes) (src : Path) (h : s.renameFrom = some src) :
    (body cfg w s .rnto rest arg payload).2.1.renameFrom = none := by
  simp [body, h]

/-- USER re-homes the session: the working directory after a successful USER is that user's home -/
theorem relogin_resets_cwd (cfg : Cfg) (w : World) (s : SState) (rest : Str) (arg : PPath)
    (payload : Bytes) (i : Nat) (u : UserCfg)
    (h : (body cfg w s .user rest arg payload).2.1.user = some i) (hu : cfg.users[i]? = some u) :
    (body cfg w s .user rest arg payload).2.1.cwd = u.home := by
  simp only [body] at h ⊢
  simp only [h, hu, Option.map, Option.getD]

/-- what `Server.user` deletes before it looks the new login up, as the translator found it -/
theorem user_deletes_table : userDeletes = ["user", "logged", "rename_from"] := by decide

/-- **relogin_drops_pending_rename** (finding F15, repaired in /repo 8bb467e): USER — any argument, any outcome —
    leaves no pending rename: an RNFR accepted under the previous login cannot be completed under the next one -/
theorem relogin_drops_pending_rename (cfg : Cfg) (w : World) (s : SState) (rest : Str) (arg : PPath)
    (payload : Bytes) : (body cfg w s .user rest arg payload).2.1.renameFrom = none := by
  simp only [body, user_deletes_table]
  rfl

/-- … so the RNTO that follows a re-login is refused as out of sequence, whoever logged in -/
theorem rnto_after_relogin_503 (cfg : Cfg) (w : World) (s : SState) (rest rest₂ : Str) (arg : PPath) (payload : Bytes)
    (hl : (body cfg w s .user rest arg payload).2.1.logged = true) :
    (runVerb cfg (body cfg w s .user rest arg payload).1 (body cfg w s .user rest arg payload).2.1 .rnto rest₂ payload).2.2.replies
      = [503] := by
  have hr := relogin_drops_pending_rename cfg w s rest arg payload
  generalize (body cfg w s .user rest arg payload).2.1 = s1 at hl hr
  generalize (body cfg w s .user rest arg payload).1 = w1
  unfold runVerb
  obtain ⟨t, ht⟩ := rnto_needs_rnfr
  rw [ht]
  simp [runGuards, runGuard, fieldSet, hl, hr]

/-- **old_relogin_kept_rename** (what F15 was): a USER that deletes only `user` and `logged` keeps the pending
    rename — `RNFR x; USER other; PASS …; RNTO y` moved a file out of the previous user's base directory -/
theorem old_relogin_kept_rename (s : SState) (src : Path) (h : s.renameFrom = some src) :
    (if ["user", "logged"].contains "rename_from" then none else s.renameFrom) = some src := by
  simp [h]

/-- a successful PASV/EPSV lets go of a parked data connection -/
theorem pasv_drops_parked_data (cfg : Cfg) (w : World) (s : SState) (arg : PPath)
    (payload : Bytes) : (body cfg w s .epsv [] arg payload).2.1.dataConn = false ∧
      (body cfg w s .epsv [] arg payload).2.2.replies = [229] := by
  simp [body]

/-! ### non-vacuity -/

example : Inv ⟨[⟨none, none, ⟨1, []⟩, [], none⟩], none, false⟩
    { user := some 0, logged := true } := by
  constructor
  · intro _; rfl
  · intro i hi; simp at hi; subst hi; rfl

/-- a non-trivial session: login, MKD, CWD, STOR with payload, RETR from an offset -/
example :
    let cfg : Cfg := ⟨[⟨some "bob".toList, none, ⟨1, []⟩, [], none⟩], none, false⟩
    let w0 : World := ⟨[], none, [none]⟩
    let (w1, s1, o1) := step cfg w0 {} (.line "USER bob".toList [])
    let (w2, s2, o2) := step cfg w1 s1 (.line "MKD a/b".toList [])
    let (w3, s3, o3) := step cfg w2 s2 (.line "CWD a/../a/b".toList [])
    let (w4, s4, _) := step cfg w3 s3 (.line "EPSV".toList [])
    let (w5, s5, _) := step cfg w4 s4 .dataConnect
    let (w6, _, o6) := step cfg w5 s5 (.line "STOR f".toList [7, 8, 9])
    o1.replies = [230] ∧ o2.replies = [257] ∧ o3.replies = [250] ∧
    s3.cwd = ⟨1, ["a".toList, "b".toList]⟩ ∧ o6.replies = [150, 226] ∧
    w6.fs.lookup ["a".toList, "b".toList, "f".toList] = some (.file [7, 8, 9]) := by
  decide

/-! ### pipelined command lines are handled in order, one at a time

`Session.step` is the meaning of ONE command on the state the previous command left.  That this is also the
meaning of several lines that arrive in one segment rests on how the dispatcher starts handlers
(`Model.Dispatch`, regenerated fact `dispatcherOneCommandAtATime`); on the pinned tree it was not so (F18, F14). -/

section dispatch
open Model.Dispatch

/-! ## white space before CRLF is not part of the command -/

/-- **fact_parse_command_shape**: as regenerated from `server.py`, `parse_command` is decode, `rstrip()` without an
    argument (all white space), `partition(' ')`, `lower()` of the first word - the text of `parseCommand` -/
theorem fact_parse_command_shape : Generated.parseCommandRstripPartitionLower = true := by decide

/-- **trailing_white_space_not_part_of_command**: for EVERY line and EVERY run of white space (blank, TAB, CR, VT, FF,
    FS..US, NEL, NBSP, the Unicode spaces ...), the line with that run before CRLF parses to the same verb and the
    same argument as the line without it -/
theorem trailing_white_space_not_part_of_command (raw ws : Str) (h : ∀ c ∈ ws, isSpace c = true) :
    parseCommand (raw ++ ws) = parseCommand raw := by
  unfold parseCommand
  rw [Model.Logs.rstrip_append_of_nil raw ws ((Model.Logs.rstrip_eq_nil_iff ws).2 h)]

/-- … and therefore gets the same replies and leaves the same session state and tree, whatever they were -/
theorem trailing_white_space_same_step (cfg : Cfg) (w : World) (s : SState) (raw ws : Str) (payload : Bytes)
    (h : ∀ c ∈ ws, isSpace c = true) :
    step cfg w s (.line (raw ++ ws) payload) = step cfg w s (.line raw payload) := by
  have h0 : step0 cfg w s (.line (raw ++ ws) payload) = step0 cfg w s (.line raw payload) := by
    show dispatch cfg w s (parseCommand (raw ++ ws)).1 (parseCommand (raw ++ ws)).2 payload
       = dispatch cfg w s (parseCommand raw).1 (parseCommand raw).2 payload
    rw [trailing_white_space_not_part_of_command raw ws h]
  unfold Session.step
  rw [h0]

example : parseCommand "TYPE I \t\x0c".toList = ("type".toList, "I".toList) := by decide +kernel
example : ∀ c ∈ " \t\x0c\u2003".toList, isSpace c = true := by decide +kernel


/-- obligation over the regenerated source -/
theorem fact_one_command_at_a_time : Generated.dispatcherOneCommandAtATime = true := by decide

/-- **pipelined_commands_handled_in_order** (every schedule of arriving lines and returning handlers): at most one
    handler runs at any moment; handlers are started in the order the lines were read (what was started, followed by
    what still waits, IS what was read); and a line waits only while a handler is running. -/
theorem pipelined_commands_handled_in_order (evs : List Ev) :
    (runNow evs).running.length ≤ 1 ∧
    (runNow evs).started ++ (runNow evs).backlog = (runNow evs).received ∧
    ((runNow evs).backlog ≠ [] → (runNow evs).running ≠ []) := by
  unfold runNow
  rw [fact_one_command_at_a_time]
  have h := run_inv init evs init_inv
  exact ⟨h.one, h.order, h.busy⟩

/-- nothing is lost or invented on the way: what was read is exactly the lines that arrived, in order -/
theorem pipelined_commands_all_read (evs : List Ev) :
    (runNow evs).received = recvs evs := by
  unfold runNow
  rw [run_received]
  simp [init]

/-- so once every handler has returned and nothing waits, every line that arrived has been handled, in order -/
theorem pipelined_commands_all_handled (evs : List Ev)
    (hq : (runNow evs).running = []) :
    (runNow evs).started = recvs evs := by
  obtain ⟨_, h2, h3⟩ := pipelined_commands_handled_in_order evs
  have hb : (runNow evs).backlog = [] := by
    cases hb : (runNow evs).backlog with
    | nil => rfl
    | cons a t => exact absurd hq (h3 (by simp [hb]))
  rw [hb, List.append_nil] at h2
  rw [h2, pipelined_commands_all_read]

/-- **old_pipelined_handlers_ran_side_by_side** (F18 / F14, the defect that was repaired): on the pinned shape two
    lines of one segment gave two handlers running at once - a later command could change the session under an
    earlier one, or overtake it -/
theorem old_pipelined_handlers_ran_side_by_side :
    (run false init [.recv 1, .recv 2]).running = [1, 2] ∧
    -- and the second could finish first
    (run false init [.recv 1, .recv 2, .done 1]).running = [1] := by decide

example : (runNow [.recv 1, .recv 2, .recv 3, .done 0, .done 0]).running = [3] ∧
    (runNow [.recv 1, .recv 2, .recv 3, .done 0, .done 0]).started = [1, 2, 3] := by decide

end dispatch

end C05
