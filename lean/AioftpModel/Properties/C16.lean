/-
  C16  Configured timeouts bound how long a stalled peer can hold a session.
  Theorems about the arming / re-arming logic (Model/Timers.lean) for all arrival histories, plus the
  decision that each timeout is attached to the stream and direction the model assumes.
-/
import AioftpModel.Model.Timers

namespace C16
open Model.Timers Generated

/-- **right_timeout_on_right_stream** (regenerated from the source): the control stream reads under
    `idle_timeout` and writes under `socket_timeout`; both data-stream constructions use `socket_timeout` -/
theorem right_timeout_on_right_stream :
    streamTimeoutKw = [("dispatcher", "read_timeout", "self.idle_timeout"),
                       ("dispatcher", "write_timeout", "self.socket_timeout"),
                       ("epsv", "timeout", "connection.socket_timeout"),
                       ("pasv", "timeout", "connection.socket_timeout")] := by decide

/-- the data-connection wait is the `wait=True` guard of every nested worker, answering 425 -/
theorem wait_guard_425 : ∀ v ∈ [Verb.retr, .stor, .appe, .list, .mlsd],
    v.workerGuards.filter (fun g => g != .worker) = [.conn [.dataConnection] true 425] := by decide

/-- successive arrival times, each less than `d` after the previous one (the first after `a`) -/
inductive Gaps (d : Nat) : Nat → List Nat → Prop where
  | nil (a : Nat) : Gaps d a []
  | cons {a b : Nat} {l : List Nat} : b < a + d → Gaps d b l → Gaps d a (b :: l)

/-- **none_means_never**: with `idle_timeout` None (or 0) no history is ever dropped for idleness -/
theorem none_means_never (t0 : Nat) (ls : List Nat) :
    idleDrop none t0 ls = none ∧ idleDrop (some 0) t0 ls = none := by
  simp [idleDrop, truthy]

/-- **active_never_dropped**: a peer whose successive command lines (starting from connect) are always
    less than `idle` apart is never dropped while it keeps doing so: the drop, if any, comes only `idle`
    after the LAST line. -/
theorem active_never_dropped (d t0 : Nat) (ls : List Nat) (hd : 0 < d)
    (hgap : Gaps d t0 ls) :
    idleDrop (some d) t0 ls = some ((ls.getLast?.getD t0) + d) := by
  have hnz : truthy (some d) = some d := by cases d <;> simp_all [truthy]
  simp only [idleDrop, hnz]
  induction ls generalizing t0 with
  | nil => simp [idleDrop.go]
  | cons l rest ih =>
    cases hgap with
    | cons h1 h2 =>
      unfold idleDrop.go
      rw [if_pos h1, ih l h2]
      cases rest <;> simp [List.getLast?]

/-- **idle_drop_exact**: if the first gap of at least `idle` follows the line at `a` (all earlier gaps
    shorter), the session is dropped at exactly `a + idle` — not earlier, not later — whatever arrives
    afterwards. -/
theorem idle_drop_exact (d t0 : Nat) (pre post : List Nat) (hd : 0 < d)
    (hgap : Gaps d t0 pre)
    (hstall : ∀ b, post.head? = some b → (pre.getLast?.getD t0) + d ≤ b) :
    idleDrop (some d) t0 (pre ++ post) = some ((pre.getLast?.getD t0) + d) := by
  have hnz : truthy (some d) = some d := by cases d <;> simp_all [truthy]
  simp only [idleDrop, hnz]
  induction pre generalizing t0 with
  | nil =>
    simp only [List.nil_append, List.getLast?_nil, Option.getD_none] at hstall ⊢
    cases post with
    | nil => simp [idleDrop.go]
    | cons b rest =>
      have := hstall b rfl
      unfold idleDrop.go
      rw [if_neg (by omega)]
  | cons l rest ih =>
    cases hgap with
    | cons h1 h2 =>
      simp only [List.cons_append]
      unfold idleDrop.go
      rw [if_pos h1]
      have hl : ((l :: rest).getLast?.getD t0) = (rest.getLast?.getD l) := by
        cases rest <;> simp [List.getLast?]
      rw [hl] at hstall ⊢
      exact ih l h2 hstall

/-- lines that arrive after the drop are not served -/
theorem nothing_served_after_drop (idle : Option Nat) (t0 : Nat) (ls : List Nat) (dt : Nat)
    (h : idleDrop idle t0 ls = some dt) : ∀ l ∈ linesServed idle t0 ls, l < dt := by
  intro l hl
  simp only [linesServed, h, List.mem_filter, decide_eq_true_eq] at hl
  exact hl.2

/-- **wait_425_exact**: no data connection within the bound ⇒ 425 at exactly `tau + wait`;
    a connection strictly inside the bound ⇒ the transfer starts when it is made; `None` ⇒ never a 425 -/
theorem wait_425_exact (w tau : Nat) (conn : Option Nat) :
    (∀ c, conn = some c → tau + w ≤ c) → dataWait (some w) tau conn = some (.inl (tau + w)) := by
  intro h
  cases conn with
  | none => rfl
  | some c =>
    have := h c rfl
    simp only [dataWait]
    rw [if_neg (by omega)]

theorem wait_in_time (w tau c : Nat) (h : c < tau + w) :
    dataWait (some w) tau (some c) = some (.inr (max tau c)) := by
  simp [dataWait, h]

theorem wait_none_never_425 (tau : Nat) (conn : Option Nat) :
    ∀ t, dataWait none tau conn ≠ some (.inl t) := by
  intro t; cases conn <;> simp [dataWait]

/-- **data_stall_exact**: same arming logic on the data stream: the session is given up exactly `sock`
    after the last movement; `None`/0 never -/
theorem data_stall_exact (d start : Nat) (acts : List Nat)
    (hgap : Gaps d start acts) :
    dataStall (some d) start acts = some ((acts.getLast?.getD start) + d) := by
  simp only [dataStall]
  induction acts generalizing start with
  | nil => simp [dataStall.go]
  | cons l rest ih =>
    cases hgap with
    | cons h1 h2 =>
      unfold dataStall.go
      rw [if_pos h1, ih l h2]
      cases rest <;> simp [List.getLast?]

theorem data_stall_none (start : Nat) (acts : List Nat) : dataStall none start acts = none := by
  simp [dataStall]

/-- as coded, `socket_timeout = 0` on the data stream is not "never" but "at once" -/
theorem data_stall_zero (start : Nat) (acts : List Nat) (h : ∀ a, acts.head? = some a → start ≤ a) :
    dataStall (some 0) start acts = some start := by
  cases acts with
  | nil => simp [dataStall, dataStall.go]
  | cons a rest =>
    have := h a rfl
    simp only [dataStall, dataStall.go]
    rw [if_neg (by omega)]
    simp

/-! ### non-vacuity -/
example : idleDrop (some 30000) 0 [1000, 20000, 49000, 90000, 91000] = some 79000 := by decide
example : linesServed (some 30000) 0 [1000, 20000, 49000, 90000, 91000] = [1000, 20000, 49000] := by decide
example : Gaps 30000 0 [1000, 20000, 49000] := by
  refine .cons (by omega) (.cons (by omega) (.cons (by omega) (.nil _)))
example : dataWait (some 1000) 500 (some 1499) = some (.inr 1499) ∧ dataWait (some 1000) 500 (some 1500) = some (.inl 1500) := by
  decide

end C16
