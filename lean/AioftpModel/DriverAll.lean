/- Everything the line-protocol driver (`lean/Driver.lean`) imports: `lake build AioftpModel.DriverAll` makes the driver runnable
   whatever else of the library is stale or does not check (models and generated tables only, no theorem files). -/
import AioftpModel.Driver.Codec
import AioftpModel.Model.Paths
import AioftpModel.Driver.Session
import AioftpModel.Driver.Lifecycle
import AioftpModel.Driver.Perms
import AioftpModel.Driver.Faults
import AioftpModel.Driver.Abort
import AioftpModel.Driver.Logs
import AioftpModel.Driver.Framing
import AioftpModel.Driver.Throttle
import AioftpModel.Driver.Transfer
import AioftpModel.Driver.Counters
import AioftpModel.Driver.PortPool
import AioftpModel.Driver.Names
import AioftpModel.Driver.Calendar
import AioftpModel.Driver.ClientTree
import AioftpModel.Driver.Backends
import AioftpModel.Driver.Timers
import AioftpModel.Driver.MemHandles
