-- Root of the AioftpModel library: models, then property theorems, then the axiom audit.
import AioftpModel.Py.Str
import AioftpModel.Generated.Unicode
import AioftpModel.Generated.Server
import AioftpModel.Model.GuardTypes
import AioftpModel.Model.Paths
import AioftpModel.Lemmas.Paths
import AioftpModel.Properties.C02
import AioftpModel.Driver.Codec
import AioftpModel.Model.FsMem
import AioftpModel.Model.Session
import AioftpModel.Driver.Session
import AioftpModel.Lemmas.Session
import AioftpModel.Properties.C03
import AioftpModel.Properties.C05
import AioftpModel.Model.Lifecycle
import AioftpModel.Driver.Lifecycle
import AioftpModel.Properties.C12
