import asyncio, aioftp, logging, sys
logging.disable(logging.CRITICAL)
import asyncio.streams as st
async def main():
    s=aioftp.Server([aioftp.User()], path_io_factory=aioftp.MemoryPathIO)
    await s.start("127.0.0.1", 0)
    port=s.server.sockets[0].getsockname()[1]
    closing={}
    orig=st.StreamReaderProtocol.connection_made
    def cm(self, transport):
        orig(self, transport)
        if self._client_connected_cb is not None and "t" not in closing:
            # what `await server.close()` does up to its first suspension, executed at this very moment:
            # the connection is accepted, its dispatcher task exists but has not started
            s.server.close()
            tasks=[asyncio.ensure_future(s.server.wait_closed())]
            for c in s.connections.values():
                c._dispatcher.cancel(); tasks.append(c._dispatcher)
            closing["n"]=len(tasks)
            closing["t"]=asyncio.ensure_future(asyncio.wait(tasks))
    st.StreamReaderProtocol.connection_made=cm
    r,w=await asyncio.open_connection("127.0.0.1",port)
    await asyncio.sleep(0.3)
    st.StreamReaderProtocol.connection_made=orig
    t=closing.get("t")
    print("close() waited for", closing.get("n"), "tasks; done:", t.done() if t else None, " registered sessions:", len(s.connections))
    out=[]
    try:
        w.write(b"USER anonymous\r\nPWD\r\n"); await w.drain()
        while True:
            line=await asyncio.wait_for(r.readline(), 0.5)
            if not line: out.append("EOF"); break
            out.append(line.decode().strip())
    except (asyncio.TimeoutError, ConnectionError) as e:
        out.append(type(e).__name__)
    print("client saw:", out)
    print("close() task done now:", t.done())
    w.close()
    await asyncio.sleep(0.2)
    print("after the client left: close() done:", t.done(), "registered:", len(s.connections))
asyncio.run(main())
