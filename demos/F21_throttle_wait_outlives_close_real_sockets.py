import asyncio, sys
import aioftp
async def main():
    big = bytes(range(256)) * 4096            # 1 MiB
    server = aioftp.Server(path_io_factory=aioftp.MemoryPathIO, write_speed_limit=64 * 1024)
    await server.start("127.0.0.1", 0)
    port = server.server.sockets[0].getsockname()[1]
    async with aioftp.Client.context("127.0.0.1", port) as c:
        async with c.upload_stream("big.bin") as s:
            await s.write(big)
    client = aioftp.Client()
    await client.connect("127.0.0.1", port)
    await client.login()
    stream = await client.download_stream("big.bin")
    await stream.read(8192)                   # the transfer is under way, the server sleeps in its throttle
    await asyncio.sleep(0.3)
    before = {t for t in asyncio.all_tasks()}
    await server.close()
    left = [t for t in asyncio.all_tasks() if t is not asyncio.current_task() and not t.done() and "Throttle.wait" in repr(t.get_coro())]
    print("Server.close() has returned; tasks of the server still pending:", [t.get_coro().__qualname__ for t in left])
    client.close()
    for t in left:
        t.cancel()
    sys.exit(1 if left else 0)
asyncio.run(main())
