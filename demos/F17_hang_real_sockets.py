import asyncio, aioftp, socket, struct, sys, logging
logging.disable(logging.CRITICAL)
async def main():
    s=aioftp.Server([aioftp.User()], path_io_factory=aioftp.MemoryPathIO, maximum_connections=100)
    await s.start("127.0.0.1", 0)
    port=s.server.sockets[0].getsockname()[1]
    stuck=0
    N=300
    for i in range(N):
        sock=socket.socket(); sock.connect(("127.0.0.1",port)); sock.setblocking(False)
        loop=asyncio.get_running_loop()
        await loop.sock_recv(sock, 100)
        await loop.sock_sendall(sock, b"USER anonymous\r\n"); await loop.sock_recv(sock,100)
        await loop.sock_sendall(sock, b"EPSV\r\nQUIT\r\n")
        for _ in range(i % 12): await asyncio.sleep(0)
        sock.setsockopt(socket.SOL_SOCKET, socket.SO_LINGER, struct.pack("ii",1,0)); sock.close()
    await asyncio.sleep(1.0)
    print("sessions still registered:", len(s.connections), "of", N, " free slots:", s.available_connections.value)
    for c in list(s.connections.values()): c._dispatcher.cancel()
    await asyncio.sleep(0.2)
    s.server.close()
asyncio.run(main())
