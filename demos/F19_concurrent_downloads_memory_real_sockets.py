import asyncio, sys
import aioftp
async def main():
    big = bytes((i * 11 + 5) % 256 for i in range(8 << 20))
    server = aioftp.Server(path_io_factory=aioftp.MemoryPathIO)
    await server.start("127.0.0.1", 0)
    port = server.server.sockets[0].getsockname()[1]
    async with aioftp.Client.context("127.0.0.1", port) as c:
        async with c.upload_stream("big.bin") as s:
            await s.write(big)
    async def dl(pause):
        async with aioftp.Client.context("127.0.0.1", port) as c:
            out = []
            async with c.download_stream("big.bin") as s:
                async for block in s.iter_by_block():
                    out.append(block)
                    if pause and len(out) < 40:
                        await asyncio.sleep(0.05)      # a client on a slow link
            return b"".join(out)
    r = await asyncio.gather(dl(True), dl(False))
    await server.close()
    print("received", [len(x) for x in r], "of", len(big), "equal:", [x == big for x in r])
    sys.exit(0 if all(x == big for x in r) else 1)
asyncio.run(main())
