import asyncio, aioftp, logging, tempfile, pathlib, os
logging.disable(logging.CRITICAL)
async def main():
    base=pathlib.Path(tempfile.mkdtemp())
    (base/"anon").mkdir(); (base/"admin").mkdir()
    (base/"anon"/"f.txt").write_bytes(b"public")
    (base/"admin"/"f.txt").write_bytes(b"TOP SECRET")
    users=[aioftp.User(base_path=base/"anon"), aioftp.User("admin","s3cret",base_path=base/"admin")]
    hits=0
    for factory in (aioftp.AsyncPathIO, aioftp.PathIO):
      for rep in range(20):
        s=aioftp.Server(users, path_io_factory=factory)
        await s.start("127.0.0.1",0)
        port=s.server.sockets[0].getsockname()[1]
        r,w=await asyncio.open_connection("127.0.0.1",port)
        async def rl(): return (await asyncio.wait_for(r.readline(),2)).decode().strip()
        await rl()
        w.write(b"USER anonymous\r\n"); await rl()
        w.write(b"EPSV\r\n"); l=await rl(); dport=int(l.split("|||")[1].split("|")[0])
        dr,dw=await asyncio.open_connection("127.0.0.1",dport)
        w.write(b"RETR f.txt\r\nUSER admin\r\n"); await w.drain()
        data=await asyncio.wait_for(dr.read(),3)
        if data==b"TOP SECRET":
            hits+=1
        w.close(); dw.close()
        await s.close()
      print(factory.__name__, "served admin's file to a session that never sent a password:", hits, "of 20")
      hits=0
asyncio.run(main())
