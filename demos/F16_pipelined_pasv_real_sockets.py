import asyncio, aioftp
async def main():
    users=[aioftp.User()]
    s=aioftp.Server(users, data_ports=[50011,50012,50013], path_io_factory=aioftp.MemoryPathIO)
    await s.start("127.0.0.1", 0)
    port=s.server.sockets[0].getsockname()[1]
    r,w=await asyncio.open_connection("127.0.0.1",port)
    async def rl():
        return (await r.readline()).decode().strip()
    print(await rl())
    w.write(b"USER anonymous\r\n"); print(await rl())
    w.write(b"PASV\r\nPASV\r\n"); await w.drain()
    print(await rl()); print(await rl())
    w.write(b"QUIT\r\n"); print(await rl())
    w.close()
    await asyncio.sleep(0.3)
    q=s.available_data_ports
    print("pool after:", sorted(q._queue) if q else None)
    await s.close()
asyncio.run(main())
